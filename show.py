#!/usr/bin/env python3
import json,sys
d=json.load(open(sys.argv[1]))
print(json.dumps(d.get('violation'),indent=1))
c=d['replay']['case']
for i,l in enumerate(c.get('layers',[])):
    print('layer',i,json.dumps(l)[:700])
print('params',c.get('params'),'ro',c.get('read_only'),'sched',c.get('sched'),'faults',c.get('faults'))
for i,o in enumerate(c.get('ops',[])): print(i,json.dumps(o))
for k in c:
    if k not in ('layers','params','read_only','sched','faults','ops'): print(k, json.dumps(c[k])[:600])
