#!/bin/bash
# Seeded-change tooling (sensitivity testing of the checks; see DESIGN.md section 15).
#
#   tools/seeded.sh verify <worktree> <dir>   confirm a candidate change in a scratch worktree:
#        patch applies, builds, the 42 baseline tests still pass with it, the demonstration
#        (tests/seeded_demo.rs) fails with it and passes without it
#   tools/seeded.sh run <name> <ID>[:tier]...  apply seeded/<name>/patch.diff to /repo, run the
#        listed checks, undo the change; prints one line per check: CAUGHT / MISSED / BROKEN
#   tools/seeded.sh all                        run every seeded change against the checks
#        listed in its meta.json ("checks")
set -u
V=/verif
base_ok() { # <log>
python3 - "$1" <<'PY'
import json, re, sys
log = open(sys.argv[1]).read()
base = json.load(open('/root/.vp/BASELINE.json'))['stable_pass']
ok = set(re.findall(r'^test (\S+) \.\.\. ok', log, re.M))
missing = [b for b in base if b.split('::', 1)[1] not in ok and b.split('::', 2)[-1] not in ok]
print(f"baseline: {len(base) - len(missing)}/{len(base)}")
sys.exit(1 if missing else 0)
PY
}
case "${1:-}" in
verify)
    WT=$2; D=$3
    cd "$WT" || exit 2
    git checkout -q -- src || exit 2
    cp "$D/seeded_demo.rs" tests/seeded_demo.rs
    git apply --check "$D/patch.diff" || { echo "VERIFY patch does not apply"; exit 1; }
    L=$(mktemp)
    cargo test --offline --test seeded_demo >"$L" 2>&1; RC0=$?
    [ $RC0 = 0 ] && echo "VERIFY demo passes without change" || { echo "VERIFY demo FAILS without change"; tail -20 "$L"; }
    git apply "$D/patch.diff"
    cargo build --offline >"$L" 2>&1 || { echo "VERIFY build fails"; tail "$L"; git checkout -q -- src; exit 1; }
    cargo test --offline --test seeded_demo >"$L" 2>&1; RC1=$?
    [ $RC1 != 0 ] && { echo "VERIFY demo fails with change:"; grep -E "panicked|FAILED|left:|right:" "$L" | head -5; } || echo "VERIFY demo PASSES with change"
    mv tests/seeded_demo.rs /tmp/.seeded_demo.$$; 
    cargo test --workspace --no-fail-fast --offline >"$L" 2>&1
    base_ok "$L"; RC2=$?
    mv /tmp/.seeded_demo.$$ tests/seeded_demo.rs
    git checkout -q -- src
    rm -f "$L"
    [ $RC0 = 0 ] && [ $RC1 != 0 ] && [ $RC2 = 0 ] && { echo "VERIFY OK"; exit 0; }
    echo "VERIFY REJECT"; exit 1
    ;;
run)
    NAME=$2; shift 2
    P=$V/seeded/$NAME/patch.diff
    [ -z "$(git -C /repo status --porcelain)" ] || { echo "/repo not clean"; exit 2; }
    git -C /repo apply "$P" || exit 2
    trap 'git -C /repo checkout -q -- .' EXIT
    for c in "$@"; do
        ID=${c%%:*}; TIER=quick; [[ $c == *:* ]] && TIER=${c##*:}
        OUT=$(cd $V && VERIF_NO_EVIDENCE=1 ./check run $ID $TIER 2>&1); RC=$?
        if [ $RC = 1 ] && echo "$OUT" | grep -q "^VIOLATION property=$ID"; then
            echo "seeded/$NAME  $ID $TIER: CAUGHT  $(echo "$OUT" | grep -m1 '^VIOLATION')"
        elif [ $RC = 0 ]; then
            echo "seeded/$NAME  $ID $TIER: MISSED"
        else
            echo "seeded/$NAME  $ID $TIER: BROKEN rc=$RC $(echo "$OUT" | tail -2 | tr '\n' ' ')"
        fi
    done
    ;;
all)
    for d in $V/seeded/*/; do
        n=$(basename $d)
        checks=$(python3 -c "import json,sys; m=json.load(open('$d/meta.json')); print('' if m.get('obsolete') else ' '.join(m.get('checks', [])))")
        [ -n "$checks" ] && $0 run $n $checks
    done
    ;;
*) sed -n 2,12p $0; exit 2;;
esac
