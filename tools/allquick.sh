#!/bin/bash
# run every quick check for the given seeds; print one line per run (used before committing)
cd /verif
for s in "$@"; do
  for id in C01 C02 C03 C04 C05 C06 C07 C08 C09 C10 C11 C12 C13 C14 C15 C16 C17 C18 C19 C20; do
    out=$(VERIF_SEED=$s VERIF_NO_EVIDENCE=${NOEV:-1} ./check run $id quick 2>&1); rc=$?
    echo "seed=$s $id rc=$rc $(echo "$out" | grep -E '^(OK|VIOLATION)' | head -1 | cut -c1-160)"
  done
done
