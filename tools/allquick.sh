#!/bin/bash
# run every quick check for the given seeds; one line per run (used before committing).
# EVIDENCE=1 lets the runs rewrite evidence/<ID>.json (only meaningful on the unchanged tree).
cd /verif
if [ "${EVIDENCE:-0}" = 1 ]; then ev=(); else ev=(VERIF_NO_EVIDENCE=1); fi
for s in "$@"; do
  for id in C01 C02 C03 C04 C05 C06 C07 C08 C09 C10 C11 C12 C13 C14 C15 C16 C17 C18 C19 C20; do
    out=$(env VERIF_SEED=$s "${ev[@]}" ./check run $id quick 2>&1); rc=$?
    echo "seed=$s $id rc=$rc $(echo "$out" | grep -E '^(OK|VIOLATION)' | head -1 | cut -c1-160)"
  done
done
