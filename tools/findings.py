#!/usr/bin/env python3
"""Maintains /verif/known_findings.json. Edit the FIXED / KNOWN tables and re-run."""
import json, os
ROOT = os.path.dirname(os.path.dirname(os.path.abspath(__file__)))
FIXED = [
 # id, property, commit, what failed, reproducer
 ("F01", "C01", "531d760", "read_at returned a short count when the mapped data cluster reached past the end of the host file", "regress/C01/short-read-host-eof.json"),
 ("F02", "C09", "400ed40", "default cache parameters used 4 KiB slices for clusters smaller than 4 KiB (negative shift / slices spanning clusters; written data read back as zeros)", "regress/C01/default-slice-small-cluster.json"),
 ("F03", "C11", "31b74cc", "discard cleared the L2 entry to 0, so a discarded cluster of an image with a backing file read old backing data instead of zeros", "regress/C11/discard-exposes-backing.json"),
 ("F04", "C10", "9f8b33e", "reads at or across the end of a shorter backing image left the caller's buffer untouched instead of returning zeros", "regress/C01/short-read-host-eof.json"),
 ("F05", "C08", "7716244", "copy-on-write of a compressed cluster ending on a host cluster boundary released one cluster too many, which was then allocated twice (guest data overwritten)", "regress/C01/compressed-cow-frees-too-many.json"),
 ("F06", "C13", "6ddd9f3", "a single-cluster read crossing the end of the image ignored the clamped length (backing image returned more bytes than requested)", "regress/C01/backing-read-count-too-large.json"),
 ("F07", "C10", "a98d7a2", "copy-on-write wrote an L2 slice into a still-new L2 cluster: the slice was wiped by the next cache flush or rebuilt empty after eviction, losing the written data", "regress/C10/cow-on-new-l2-cluster-lost.json"),
 ("F08", "C09", "9698375", "version 2 headers were parsed with v3-only fields (header_length, feature bits), so valid v2 images with extensions or a backing name failed to open", "regress/C09/v2-header-ext-misparse.json"),
 ("F09", "C10", "680a6e0", "L2Entry::from_mapping asserted compressed length < cluster size and panicked on copy-on-write of a valid compressed cluster whose sector span reaches the cluster size", "regress/C10/compressed-cow-length-assert.json"),
 ("F10", "C07", "177cd10", "u32 overflow in HostCluster::rb_slice_host_end made free_clusters/try_allocate_from loop forever with big clusters and big slices or narrow refcounts", "regress/C07/rb-slice-end-u32-overflow-discard.json"),
 ("F11", "C03", "c069255", "writing to a zero-flagged cluster with a preallocation leaked the preallocated host cluster", "regress/C03/zero-prealloc-write-leaks.json"),
]
KNOWN = [
 # dicts: id, property, what, rule, tags, msg_contains, reproducer, domain
]
def main():
    out = []
    for (fid, prop, commit, what, rep) in FIXED:
        out.append({"id": fid, "property": prop, "status": "fixed", "commit": commit, "what": what,
                    "reproducer": rep, "line": f"fixed: property={prop} {commit} {what}"})
    for k in KNOWN:
        k = dict(k); k["status"] = "known"
        k["line"] = f"known: property={k['property']} {k['what']}"
        out.append(k)
    json.dump({"format": "status=fixed entries suppress nothing; status=known entries are tolerated only while their reproducer still reproduces and only for violations matching rule+tags+msg_contains",
               "findings": out}, open(os.path.join(ROOT, "known_findings.json"), "w"), indent=1)
    print("wrote known_findings.json:", len(FIXED), "fixed,", len(KNOWN), "known")
main()
