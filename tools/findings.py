#!/usr/bin/env python3
"""Maintains /verif/known_findings.json. Edit the FIXED / KNOWN tables and re-run."""
import json, os
ROOT = os.path.dirname(os.path.dirname(os.path.abspath(__file__)))
FIXED = [
 # id, property, commit, what failed, reproducer
 ("F01", "C01", "531d760", "read_at returned a short count when the mapped data cluster reached past the end of the host file", "regress/C01/short-read-host-eof.json"),
 ("F02", "C09", "400ed40", "default cache parameters used 4 KiB slices for clusters smaller than 4 KiB (negative shift / slices spanning clusters; written data read back as zeros)", "regress/C01/default-slice-small-cluster.json"),
 ("F03", "C11", "31b74cc", "discard cleared the L2 entry to 0, so a discarded cluster of an image with a backing file read old backing data instead of zeros", "regress/C11/discard-exposes-backing.json"),
 ("F04", "C10", "9f8b33e", "reads at or across the end of a shorter backing image left the caller's buffer untouched instead of returning zeros", "regress/C01/short-read-host-eof.json"),
 ("F05", "C08", "7716244", "copy-on-write of a compressed cluster ending on a host cluster boundary released one cluster too many, which was then allocated twice (guest data overwritten)", "regress/C01/compressed-cow-frees-too-many.json"),
 ("F06", "C13", "6ddd9f3", "a single-cluster read crossing the end of the image ignored the clamped length (backing image returned more bytes than requested)", "regress/C01/backing-read-count-too-large.json"),
 ("F07", "C10", "a98d7a2", "copy-on-write wrote an L2 slice into a still-new L2 cluster: the slice was wiped by the next cache flush or rebuilt empty after eviction, losing the written data", "regress/C10/cow-on-new-l2-cluster-lost.json"),
 ("F08", "C09", "9698375", "version 2 headers were parsed with v3-only fields (header_length, feature bits), so valid v2 images with extensions or a backing name failed to open", "regress/C09/v2-header-ext-misparse.json"),
 ("F09", "C10", "680a6e0", "L2Entry::from_mapping asserted compressed length < cluster size and panicked on copy-on-write of a valid compressed cluster whose sector span reaches the cluster size", "regress/C10/compressed-cow-length-assert.json"),
 ("F10", "C07", "177cd10", "u32 overflow in HostCluster::rb_slice_host_end made free_clusters/try_allocate_from loop forever with big clusters and big slices or narrow refcounts", "regress/C07/rb-slice-end-u32-overflow-discard.json"),
 ("F12", "C07", "59003d2", "AsyncLruCache::commit_wmap looped forever when more slices were being loaded concurrently than the cache limit (livelock without any suspension point)", "regress/C07/commit-wmap-endless-loop.json"),
 ("F13", "C06", "407237b", "a read running concurrently with the first write to a freshly allocated data cluster returned the stale previous content of that host cluster", "regress/C06/read-sees-stale-new-cluster.json"),
 ("F14", "C18", "ca77831", "flush_meta cleared need_flush after its last pass, losing the mark of metadata dirtied while that pass was running", "regress/C18/flag-cleared-after-last-pass.json"),
 ("F15", "C04", "a8a588d", "discard dropped the refcount of the host cluster before the cleared L2 entry was durable: a crash in between (refcounts are flushed first) left the on-disk mapping pointing to a free, possibly re-used cluster", "regress/C04/discard-refcount-before-mapping.json"),
 ("F16", "C04", "41ff573", "copy-on-write dropped the references of a replaced compressed cluster without a barrier after the L2 slice write: the refcount flush could persist while the slice write was lost", "regress/C04/compressed-cow-free-before-sync.json"),
 ("F17", "C04", "5762005", "the first repair of F11 (free the preallocation) was not crash safe: the dropped reference could reach the disk before the new mapping; the preallocation is now reused (follow-up b237dee zeroes it durably before it is mapped: C05)", "regress/C04/zero-prealloc-free-before-mapping.json"),
 ("F18", "C07", "e0f5d8a", "copy-on-write/discard settled a new L2 cluster with one of its slices write-locked while cache flush takes the cluster lock before slice locks: deadlock (follow-up f10853f: do not hold the new-cluster map lock while waiting for a cluster lock)", "regress/C07/settle-vs-flush-deadlock.json"),
 ("F19", "C05", "46c579b", "copy-on-write wrote the whole L2 slice in place while it already mapped sibling clusters of the same multi-cluster write that were allocated but not zeroed yet: a crash exposed the stale content of a reused host cluster in place of synced data", "regress/C05/cow-slice-flush-exposes-unzeroed-sibling.json"),
 ("F20", "C17", "af1f98a", "a failed slice load left the pending cache entry marked as loaded (and, follow-up 9cc216e, committed into the cache by the next load): every later access of that slice failed with 'Fail to load l2 table' or used an empty slice", "regress/C17/failed-slice-load-poisons-cache.json"),
 ("F21", "C17", "a326967", "dirty flags of slices and top-table blocks were cleared/popped before their write succeeded and failed zeroing of new clusters was ignored: after a backend error flush_meta retried successfully while metadata was still missing on disk", "regress/C17/dirty-cleared-before-write.json"),
 ("F22", "C17", "bca42b9", "dirty slices evicted from the cache were lost when their write-back failed", "regress/C17/eviction-writeback-failure-loses-slice.json"),
 ("F23", "C15", "8e6a910", "serialize_to_buf wrote the 112-byte v3 layout for version 2 headers, so the header extensions of a v2 image were lost on re-serialisation", "regress/C15/v2-header-roundtrip-loses-extensions.json"),
 ("F24", "C09", "70248e1", "format_qcow2 panicked (index past the end of its single refcount block) for big virtual sizes with small clusters / wide refcounts", "regress/C09/format-panic-single-refblock.json"),
 ("F25", "C13", "a4bfc76", "read_at/write_at computed offset+len-1 before validating: overflow panic for len 0 at offset 0 and for offsets near u64::MAX; a zero-length write allocated a cluster", "regress/C13/read-offset-overflow.json"),
 ("F26", "C13", "17716e3", "discard on a read-only device returned Ok, unmapped clusters in ram and sent hole-punch requests to the file", "regress/C13/discard-on-read-only.json"),
 ("F27", "C14", "79d1aec", "from_buf sliced the first 105 bytes of a buffer without checking its length (panic on short files)", "regress/C14/header_bytes-0.json"),
 ("F28", "C14", "561d5c7", "from_buf accepted versions above 3, encrypted images (crypt_method), refcount_order above 6, invalid v3 header_length and non-deflate compression types: such images were opened and misread or panicked in the geometry derivation", "regress/C14/unsupported_feature-0.json"),
 ("F29", "C14", "01f63d9", "a feature-name-table extension whose length is not a multiple of 48 made from_buf index a short chunk (panic)", "regress/C14/mutated_image-1.json"),
 ("F30", "C14", "cd1777d", "Qcow2Dev::new allocated the refcount table with the size the header claims (abort / huge allocation) and asserted on zero-sized tables; qcow2_alloc_dev unwrapped the error; the header buffer was parsed uninitialised when the file is shorter than it", "regress/C14/mutated_image-2.json"),
 ("F31", "C14", "097ea4b", "free_clusters unwrapped a refcount decrement that fails on corrupted refcounts and add_cache_slice added offsets without overflow check (panics on malformed tables)", "regress/C14/mutated_image-4.json"),
 ("F32", "C14", "211bd7f", "cache slice parameters that do not fit the image's cluster size hit a debug assertion / produced bogus geometry instead of an error", "regress/C14/C14-b200b5183831c3bf.json"),
 ("F33", "C12", "1ce9bb4", "flush_refcount wrote a dirty refcount-table block last and returned without a barrier; a mapping written right after could survive a crash while the table entry linking a newly created refcount block was lost (referenced cluster without refcount)", "regress/C12/reftable-block-not-synced-before-mappings.json"),
 ("F34", "C19", "6e14084", "the tokio backend asserted that a write of more than 2 MiB completed in one call (panic) and returned short reads for reads above 2 MiB although the file had more data", "regress/C19/tokio-write-larger-than-2MiB.json"),
 ("F35", "C20", "604e0e6", "rqcow2 convert raw->qcow2 failed (unwrapped alignment error) for raw files whose size is not a multiple of 512", "regress/C20/convert-odd-size.json"),
 ("F36", "C20", "9c9d6b3", "check() reported a leak for valid images with preallocated zero clusters or an L1 table larger than the virtual size needs", "regress/C20/check-false-leak-zero-prealloc.json"),
 ("F37", "C17", "9cc216e", "follow-up of F20: the pending cache entry of a failed slice load stayed in the write map and was committed into the cache, empty and without offset, by the next successful load of another slice (later panic in flush_table)", "regress/C17/failed-slice-load-committed-empty.json"),
 ("F38", "C07", "f10853f", "follow-up of F18: settling a new metadata cluster waited for the cluster's lock while holding the new-cluster map's read lock, and cache flush holds that cluster's lock while taking the map's write lock: deadlock between discard/copy-on-write and flush_meta", "regress/C07/settle-vs-flush-deadlock.json"),
 ("F39", "C05", "b237dee", "follow-up of F17: a reused preallocation was zeroed lazily like a new cluster, but no refcount changes, so no sync separated the zeroing from the flush of the new mapping: after a crash the mapping pointed at the stale preallocated content", "regress/C05/prealloc-reuse-exposes-stale-content.json"),
 ("F40", "C17", "47acbfa", "follow-up of F39: a failure while zeroing a preallocation in the middle of populating the mappings of one multi-cluster write returned before the L2 slice was marked dirty, so the mappings already made were never flushed", "regress/C17/prealloc-partial-mapping-not-dirty.json"),
 ("F41", "C20", "ff62ca5", "Qcow2Dev::check() / rqcow2 check took the host cluster after a compressed cluster that ends exactly on a cluster boundary as referenced, so a leaked cluster there was accepted", "regress/C20/check-misses-leak-after-boundary-compressed.json"),
 ("F42", "C04", "f310ed5", "two parts of one multi-cluster copy-on-write write (or a writer and flush_meta) flushed refcounts concurrently: the second caller of flush_refcount() found the dirty flags already cleared by the first, returned before the refcount block was written and synced, and wrote its L2 slice; a crash kept the mapping with refcount 0", "regress/C04/concurrent-refcount-flush-skipped.json"),
 ("F43", "C04", "246b458", "flush_meta() running concurrently with an allocating write wrote an L2 slice (or the L1 block pointing to a new L2 table) containing a mapping made after its refcount phase: crash image with a mapping whose cluster has refcount 0 (found by the concurrent-history crash domain added after seeded change R3-C05)", "regress/C04/concurrent-flush-mapping-before-refcount.json"),
 ("F44", "C05", "246b458", "same commit: the L2 slice written by a concurrent flush_meta() mapped a new data cluster whose zeroing was not durable yet (completed after the flush's sync was submitted): a block synced as zero read the stale content of the cluster's previous use after a crash", "regress/C05/concurrent-flush-mapping-before-zeroing-synced.json"),
 ("F45", "C04", "ea78a02", "the L1 block pointing to a new L2 table cluster that copy-on-write had zeroed (no dirty slice yet) was written without a sync after that zeroing: crash image whose L1 entry points to the stale content of the cluster's previous use (found once free host clusters of built images were filled with garbage)", "regress/C04/l1-block-before-settled-l2-cluster-zeroing-synced.json"),
 ("F46", "C17", "ea78a02", "same commit: a write that failed after allocating a new L2 table (zeroing failed) left the L1 entry in place; no slice of the cluster was dirty, so a later flush_meta wrote the L1 block pointing to a never-zeroed cluster - garbage L2 entries in the file after healing + flush", "regress/C17/failed-settle-leaves-l1-entry-to-unzeroed-l2-cluster.json"),
 ("F47", "C16", "b7d474b", "commit_header() rewrote the header with a request whose length (e.g. 132 bytes) and buffer address were not aligned to the block size (reached when the first write beyond a short header l1_size extends it in place; pointed out by a sub-agent, confirmed once C16 got short-L1 images)", "regress/C16/header-rewrite-unaligned.json"),
 ("F48", "C04", "c1333bb", "a slice of a new L2 table cluster written back by a cache eviction (zero + write, no sync, clean afterwards) followed by flush_meta(): no dirty slice below the L1 block, so the block was written without a sync and a crash could keep L1 entry and slice but lose the zeroing - garbage in the rest of the L2 table (found by the thorough tier of C04, seed 1)", "regress/C04/l1-block-after-evicted-slice-of-new-l2-cluster.json"),
 ("F49", "C17", "1b7b941", "former known finding C17-failed-zeroing-of-new-cluster-keeps-mapping, repaired by F43..F46 plus this commit: a write_at that failed after mapping a freshly allocated data cluster and before zeroing it (zeroing failed: mark stayed at 'zeroing started'; or an earlier step failed and discard later wrote the slice in place) left a mapping to the stale content of the cluster's previous use, live and after flush + reopen", "regress/C17/failed-zeroing-keeps-mark.json"),
 ("F50", "C17", "e641e8b", "commit_wmap() called by one slice loader made every pending cache entry visible, also one whose own load was still in flight; when that load failed the dead entry (no offset) stayed visible and a sibling part of the same multi-cluster copy-on-write write used it - panic on Option::unwrap() in flush_table (two L2 tables loaded by one write, the read of the second fails; found by C17's thorough tier)", "regress/C17/failed-load-of-entry-committed-by-another-loader.json"),
 ("F51", "C15", "6151344", "a version 3 header with header_length 104 (no compression type field) followed by a header extension: from_buf() kept the extension's first byte as compression type, serialize_to_buf() wrote it into the 112 byte header it produces, and from_buf() refused that output (found when the header generators got header_length variants after seeded changes R6-C09 / R6-C15)", "regress/C15/v3-header-104-garbage-compression-type.json"),
 ("F52", "C17", "f96182a", "a read request of the backing chain fails inside the multi-cluster read that do_back_cow() issues (backing clusters smaller than the top image's): the backing device reports a short count, do_back_cow() ignored the count, wrote the uninitialised bounce buffer to the new cluster, published the mapping and acknowledged the write (found when fault injection was extended to the files of the backing chain)", "regress/C17/backing-read-error-in-cow-writes-garbage.json"),
 ("F11", "C03", "c069255", "writing to a zero-flagged cluster with a preallocation leaked the preallocated host cluster", "regress/C03/zero-prealloc-write-leaks.json"),
]
KNOWN = [
 # dicts: id, property, what, rule, tags, msg_contains, reproducer, domain
 dict(id="C06-discard-not-synchronised-with-inflight-io", property="C06",
      what="discard running concurrently with other calls: the host cluster is released (refcount 0, allocatable again) "
           "before its hole punch and while reads/writes that looked up the old mapping are still in flight, so guest data "
           "lands in, or is wiped from, a host cluster already re-allocated to another guest cluster (history contains a batch "
           "in which a discard runs concurrently with other calls)",
      rules=["ReadData", "Frame", "Reopen"], tags=["hist:concurrent_discard"],
      reproducer="findings/C06-discard-race.json",
      reproducers=["findings/C06-discard-race.json", "findings/C06-discard-not-synchronised-with-inflight-io-r1.json",
                   "findings/C06-discard-not-synchronised-with-inflight-io-r2.json",
                   "findings/C06-discard-not-synchronised-with-inflight-io-r0.json"], domain="conc"),
 dict(id="C06-slice-eviction-under-concurrency", property="C06",
      what="metadata caches smaller than the set of slices in use: AsyncLruCache evicts slices while several tasks run "
           "(__pop_lru falls back to entries still held; a dirty victim is written back after it left the map), so updates made "
           "through an evicted entry are lost or a stale copy is reloaded and acknowledged writes read back old data "
           "(history contains an eviction during a concurrent batch)",
      rules=["ReadData", "Frame", "Reopen"], tags=["hist:eviction_during_concurrency"],
      reproducer="findings/C06-eviction-race.json",
      reproducers=["findings/C06-eviction-race.json", "findings/C06-slice-eviction-under-concurrency-r0.json",
                   "findings/C06-slice-eviction-under-concurrency-r1.json",
                   "findings/C06-slice-eviction-under-concurrency-r2.json"], domain="conc"),
 dict(id="C07-slice-eviction-under-concurrency", property="C07",
      what="same root cause as C06-slice-eviction-under-concurrency: with slices evicted while several tasks run, calls with "
           "valid arguments fail with 'Fail to load l2 table' (entry evicted between insertion and re-lookup) or tasks "
           "deadlock on slice locks (history contains an eviction during a concurrent batch)",
      rules=["ApiErr", "DiscardErr", "Deadlock", "Budget"], tags=["hist:eviction_during_concurrency"],
      reproducer="findings/C07-eviction-race.json", domain="conc"),
 dict(id="C08-slice-eviction-under-concurrency", property="C08",
      what="same root cause as C06-slice-eviction-under-concurrency, in the refcount-block cache: with concurrent allocations "
           "and a cache smaller than the slices in use, the slice holding a new refcount block's self-reference (or fresh "
           "increments) is evicted and reloaded stale, so clusters already in use are handed out again (a cache slice was "
           "evicted while concurrent allocations ran)",
      rules=["Ownership"], tags=["hist:eviction_during_concurrency"],
      reproducer="findings/C08-eviction-race.json", domain="allocator"),
 dict(id="C12-refcount-table-growth", property="C12",
      what="growing the refcount table does not work: RefTable::clone_and_grow is called with its arguments in a different order "
           "from its signature (panic in the slice copy for some geometries), grow_reftable frees the old table while the caller "
           "holds the table's write lock (the write blocks forever), and only the dirty blocks of the new table are written to its "
           "new location; any history whose host file can outgrow the coverage of the initial refcount table is affected "
           "(case predicate: guest clusters + metadata bound >= clusters covered by the initial refcount table)",
      rules=[], tags=["size:beyond_initial_reftable_coverage"],
      reproducer="findings/C12-reftable-growth.json", domain="seq"),
 dict(id="C12-l1-growth", property="C12",
      what="images whose header lists fewer L1 entries than the virtual size needs: extending l1_size in place claims clusters the "
           "L1 table does not own (the next cluster is then used as L1 and as L2/data), and the relocation path writes only the "
           "dirty blocks of the new table (case predicate: the L1 entries the virtual size needs occupy more clusters than the "
           "L1 table described by the header owns)",
      rules=[], tags=["image:l1_short"],
      reproducer="findings/C12-l1-growth.json", domain="seq"),
 dict(id="C12-slice-eviction-under-concurrency", property="C12",
      what="same root cause as C06-slice-eviction-under-concurrency: one multi-cluster write runs its per-cluster parts "
           "concurrently, so with a small cache slices are evicted while sibling parts still use them; the call fails with "
           "'one write failed' / 'Fail to load l2 table' or loses mappings (a cache slice was evicted during a multi-cluster call)",
      rules=[], tags=["hist:eviction_during_concurrency"],
      reproducer="findings/C12-eviction-in-multi-cluster-write.json", domain="seq"),
 dict(id="C17-slice-eviction-under-concurrency", property="C17",
      what="same root cause as C06-slice-eviction-under-concurrency / C12-slice-eviction-under-concurrency: one multi-cluster write "
           "runs its per-cluster parts concurrently, so with a tiny cache a slice is evicted while a sibling part still uses it and "
           "the call fails with 'one write failed' (inner error 'Fail to load l2 table') although the backend completed every "
           "request - in a fault history this shows as 'device not usable after an earlier fault' because the earlier fault only "
           "shifted the cache state (a cache slice was evicted during a multi-cluster call of the history)",
      rules=["ApiErr", "DiscardErr", "ReadData", "Reopen", "Frame"], tags=["hist:eviction_during_concurrency"],
      reproducer="findings/C17-eviction-in-multi-cluster-write.json", domain="singles"),
 dict(id="C18-slice-eviction-under-concurrency", property="C18",
      what="same root cause as C06-slice-eviction-under-concurrency: an update made through a slice evicted while several "
           "tasks run is lost from the cache, so after flush_meta the flag is false although file and memory disagree "
           "(history contains an eviction during a concurrent batch)",
      rules=["NeedFlush"], tags=["hist:eviction_during_concurrency"],
      reproducer="findings/C18-eviction-race.json",
      reproducers=["findings/C18-eviction-race.json", "findings/C18-slice-eviction-under-concurrency-r0.json",
                   "findings/C18-slice-eviction-under-concurrency-r1.json"], domain="conc"),
]
def main():
    out = []
    for (fid, prop, commit, what, rep) in FIXED:
        out.append({"id": fid, "property": prop, "status": "fixed", "commit": commit, "what": what,
                    "reproducer": rep, "line": f"fixed: property={prop} {commit} {what}"})
    for k in KNOWN:
        k = dict(k); k["status"] = "known"
        k["line"] = f"known: property={k['property']} {k['what']}"
        out.append(k)
    json.dump({"format": "status=fixed entries suppress nothing; status=known entries are tolerated only while their reproducer still reproduces and only for violations matching rule+tags+msg_contains",
               "findings": out}, open(os.path.join(ROOT, "known_findings.json"), "w"), indent=1)
    print("wrote known_findings.json:", len(FIXED), "fixed,", len(KNOWN), "known")
main()
