#!/usr/bin/env python3
"""Regenerates /verif/MANIFEST.json from the table below."""
import json, subprocess, os
ROOT = os.path.dirname(os.path.dirname(os.path.abspath(__file__)))

HOOK_COMMITS = subprocess.run(
    ["git", "-C", "/repo", "log", "--format=%h %s", "--grep=^verif hooks"],
    capture_output=True, text=True).stdout.strip().splitlines()

SEQ_NOTE = ("Trusted base: the harness's simulated host file (tied to the real backends by C19), the "
            "independent qcow2 builder/checker/reader written from the specification, the flat reference "
            "model. Assumes legal parameters (block size and custom slice sizes <= smallest cluster size of "
            "the chain; virtual size a multiple of the block size). Sampling, not proof.")

CHECKS = {
 "C01": dict(cat="exploration", design="DESIGN.md 6/C01",
   technique="model-based property testing (proptest): generated sequential histories vs. flat reference disk, shrinking to replay file",
   text="Generated image chains x device parameters x sequential histories are executed on the real Qcow2Dev over an in-memory backend; every read and a full sweep after each modifying operation are compared with a flat reference disk. Exploration is the right level: the property quantifies over unbounded histories and configurations, so it can be refuted by search but not proved by it.",
   note=SEQ_NOTE),
 "C02": dict(cat="exploration", design="DESIGN.md 6/C02",
   technique="round-trip property testing (proptest): flush, copy file bytes, reopen with independently drawn parameters, sweep vs. reference disk",
   text="After every successful flush_meta in a generated history the file bytes are copied, reopened with the same and with two independently generated legal parameter sets, and swept against the reference disk.",
   note=SEQ_NOTE),
 "C03": dict(cat="exploration", design="DESIGN.md 6/C03 and appendix A",
   technique="property testing with an independent oracle: spec-derived qcow2 checker (exact refcounts) on the file after every flush of generated histories",
   text="After every successful flush_meta in a generated history the raw file is judged by an independent checker: structure, alignment, COPIED flags, no double reference, nothing beyond the virtual size, stored refcount == references (no leak, no under-count).",
   note=SEQ_NOTE),
 "C10": dict(cat="exploration", design="DESIGN.md 6/C10",
   technique="model-based property testing over backing chains and compressed images + request-log monitor for read-only files",
   text="Histories dominated by partial writes over backing-provided and compressed clusters are compared with the reference disk immediately and after flush+reopen; the independent checker verifies released compressed clusters; a request-log monitor asserts that backing files and read-only devices never receive modifying requests.",
   note=SEQ_NOTE),
 "C11": dict(cat="exploration", design="DESIGN.md 6/C11",
   technique="model-based property testing: boundary-biased discard arguments x cluster states, sweep + independent refcount check + reopen",
   text="discard() with boundary-class arguments over every cluster state, embedded in histories; oracle is the C11 model rule applied to the reference disk, the independent checker for released clusters, and flush+reopen.",
   note=SEQ_NOTE),
 "C16": dict(cat="exploration", design="DESIGN.md 6/C16",
   technique="invariant monitor over generated histories: every backend request's offset/length/buffer address checked against the block size",
   text="Every backend request of every file of the chain, over generated histories with all block sizes and slice sizes, is checked for offset, length and buffer alignment to the configured block size.",
   note=SEQ_NOTE + " Caller buffers are 4096-aligned."),
 "C04": dict(cat="fault_enumeration", design="DESIGN.md 6/C04 and appendix A",
   technique="crash-point enumeration over generated histories: crash images derived from the recorded request log (systematic request subsets + generated per-block tearing), judged by an independent crash-safe qcow2 checker",
   text="Generated histories run with durability tracking (a request is durable only if a successful fsync was submitted after it completed). For up to 60 crash points per history the images in which nothing / everything / exactly one / all but one / every small subset of the un-synced requests persisted, plus block-granular torn images, are built and each distinct image is checked: tables parse, reachable pointers valid and initialised, stored refcount >= references.",
   note=SEQ_NOTE + " Crash points, subsets beyond 6 requests and schedules are sampled."),
 "C05": dict(cat="fault_enumeration", design="DESIGN.md 6/C05",
   technique="crash-point enumeration after generated sync points: every crash image is reopened with the library and each block must hold the synced value or a later operation's value",
   text="Histories with sync points (flush_meta then fsync_range) followed by further operations; crash images after the sync point (same families as C04) are opened with a fresh device and every 512-byte block is compared with {value acknowledged at the sync} U {values written by later operations} U {zeros under a later whole-cluster discard}.",
   note=SEQ_NOTE + " Crash points, subsets and schedules are sampled."),
 "C06": dict(cat="exploration", design="DESIGN.md 6/C06",
   technique="stateful concurrency testing: generated task batches under a choice-driven deterministic executor, per-block Wing-Gong linearizability oracle over unique write values, then flush+reopen",
   text="Batches of 2..6 tasks issue overlapping read/write/discard/flush/shrink calls; a generated choice vector decides every task poll and every backend completion. Each 512-byte block's history must be linearizable; untouched blocks must not change; the final content must survive flush+reopen. Schedules are sampled, so this refutes but never proves.",
   note=SEQ_NOTE + " Two known findings (discard racing other calls; slice eviction while tasks run) are tolerated by signature, see known_findings.json."),
 "C07": dict(cat="exploration", design="DESIGN.md 6/C07",
   technique="deterministic-schedule exploration with exact deadlock detection (no ready task, nothing in flight), step/lookup/request budgets for livelock, and Err/panic detection on valid calls",
   text="Concurrent batches and sequential histories without faults: the executor reports deadlock exactly, budgets (orders of magnitude above terminating runs) flag livelock suspects, and any Err/panic from a valid call is a spurious failure.",
   note=SEQ_NOTE + " Liveness is only refuted. Known findings tolerated by signature: eviction while tasks run; discard racing other calls."),
 "C17": dict(cat="fault_enumeration", design="DESIGN.md 6/C17",
   technique="fault-injection enumeration: every single-request failure position of generated histories (both failure flavours) plus generated multi-fault plans, then heal + flush retry + independent checker + reopen vs. reference model with old-or-new sets",
   text="For each generated history the fault-free run counts the requests to the image file; the history is then re-executed once per request ordinal failing exactly that request (enumerated up to 150), and under generated multi-fault plans. Oracle: no panic/hang; Err only from calls whose own request failed; after healing flush_meta succeeds within 8 attempts; acknowledged writes read back on the live device and after reopen, blocks of failed writes hold old or new value; the independent checker finds no corruption or under-count.",
   note=SEQ_NOTE + " A failed write is modelled as not applied or fully applied. One known finding tolerated by signature (punch and its zero-write fallback both fail)."),
 "C18": dict(cat="exploration", design="DESIGN.md 6/C18",
   technique="invariant sampling at quiescent points of generated concurrent and sequential histories: need_flush_meta()==false => copied file passes the independent checker and reopens to the same content",
   text="At every quiescent point need_flush_meta() is sampled; when false the file is copied, judged by the independent strict checker, reopened and swept against the live content.",
   note=SEQ_NOTE + " Known finding tolerated by signature: eviction while tasks run."),
}

ALL = ["C%02d" % i for i in range(1, 21)]
PENDING_REASON = "check not built yet in this revision of the framework (planned, see DESIGN.md section 11); not claimed until it runs clean"

def main():
    checks = []
    for pid in ALL:
        if pid not in CHECKS:
            continue
        c = CHECKS[pid]
        checks.append({
            "property_id": pid,
            "quick_cmd": f"./check run {pid} quick",
            "thorough_cmd": f"./check run {pid} thorough",
            "evidence_file": f"/verif/evidence/{pid}.json",
            "replay_cmd_template": "./check replay {path}",
            "engine": "qv",
            "level_claimed": {"category": c["cat"], "text": c["text"], "design_ref": c["design"]},
            "level_note": c["note"],
            "technique": c["technique"],
        })
    m = {
        "version": 1,
        "setup_cmd": "./check --setup",
        "hooks": {
            "guard": "cargo feature verif-hooks (qcow2-rs/Cargo.toml [features])",
            "enable": "the harness crate /verif/harness path-depends on /repo with features = [\"verif-hooks\"]; ./check rebuilds it with cargo build --release --offline",
            "baseline_off_cmd": "/verif/tools/baseline.sh",
            "source_commits": HOOK_COMMITS,
            "add_only": True,
        },
        "engines": [
            {"name": "qv", "path": "/verif/harness", "serves_properties": sorted(CHECKS.keys()),
             "kind_free_text": "Rust harness: simulated Qcow2IoOps backend + deterministic executor + independent qcow2 implementation + proptest-driven sharded runner with shrinking, replay files and evidence"},
        ],
        "checks": checks,
        "not_applicable": [{"property_id": p, "reason": PENDING_REASON} for p in ALL if p not in CHECKS],
        "notes": "Seeds: VERIF_SEED (default 1). Every run is a pure function of the seed, the harness and /repo. Exit 2 = no verdict (build failure / watchdog).",
    }
    with open(os.path.join(ROOT, "MANIFEST.json"), "w") as f:
        json.dump(m, f, indent=1)
    print("wrote MANIFEST.json with", len(checks), "checks")

main()
