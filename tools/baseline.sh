#!/bin/bash
# Runs the repository's own test suite with the verif-hooks feature OFF (default features)
# and compares with the stable baseline list.
cd /repo || exit 2
OUT=$(mktemp)
cargo test --workspace --no-fail-fast --offline >"$OUT" 2>&1
python3 - "$OUT" <<'PY'
import json, re, sys
log = open(sys.argv[1]).read()
base = json.load(open('/root/.vp/BASELINE.json'))['stable_pass']
ok = set(re.findall(r'^test (\S+) \.\.\. ok', log, re.M))
missing = [b for b in base if b.split('::', 1)[1] not in ok and b.split('::', 2)[-1] not in ok]
print(f"baseline tests: {len(base)} expected, {len(base) - len(missing)} passed with hooks off")
for m in missing:
    print("MISSING", m)
sys.exit(1 if missing else 0)
PY
RC=$?
rm -f "$OUT"
exit $RC
