#![no_main]
//! C01: bytes -> sequential history -> flat reference disk oracle, in-process under ASan.
use libfuzzer_sys::fuzz_target;

fuzz_target!(|data: &[u8]| {
    qv::exec::install_panic_hook();
    if let Some(v) = qv::props::c01::fuzz_history(data) {
        panic!("VIOLATION C01 {:?}: {}", v.rule, v.msg);
    }
});
