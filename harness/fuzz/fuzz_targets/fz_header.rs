#![no_main]
//! C14 (a): arbitrary bytes -> Qcow2Header::from_buf. The semantic oracle runs inside the target:
//! no panic, bounded allocation, acceptance only inside the specification / supported set.
use libfuzzer_sys::fuzz_target;

fuzz_target!(|data: &[u8]| {
    qv::exec::install_panic_hook();
    if let Some(v) = qv::props::c14::fuzz_header(data) {
        panic!("VIOLATION C14 {:?}: {}", v.rule, v.msg);
    }
});
