#![no_main]
//! C14 (b): bytes -> (builder image, mutations, battery) -> open + operate, in-process under ASan.
use libfuzzer_sys::fuzz_target;

fuzz_target!(|data: &[u8]| {
    qv::exec::install_panic_hook();
    if let Some(v) = qv::props::c14::fuzz_image(data) {
        panic!("VIOLATION C14 {:?}: {}", v.rule, v.msg);
    }
});
