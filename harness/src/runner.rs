//! Sharded proptest driver, known-findings handling, replay files and evidence.
use crate::engine::Violation;
use crate::gen::RawCase;
use proptest::strategy::{BoxedStrategy, Strategy};
use proptest::test_runner::{Config, RngAlgorithm, TestCaseError, TestError, TestRng, TestRunner};
use serde::{Deserialize, Serialize};
use serde_json::{json, Value};
use std::collections::{BTreeMap, BTreeSet};
use std::path::{Path, PathBuf};
use std::sync::atomic::{AtomicBool, Ordering};
use std::sync::Mutex;
use std::time::Instant;

#[derive(Clone, Copy, Debug, PartialEq, Eq)]
pub enum Tier {
    Quick,
    Thorough,
}

impl Tier {
    pub fn name(&self) -> &'static str {
        match self {
            Tier::Quick => "quick",
            Tier::Thorough => "thorough",
        }
    }
}

pub enum Verdict {
    Pass,
    /// broke a rule this property owns
    Violation(Violation),
    /// cut short by something another property owns
    Foreign(Violation),
    /// not a verdict (harness limit)
    Inconclusive(String),
}

pub struct CaseResult {
    pub verdict: Verdict,
    pub nontrivial: bool,
    pub classes: Vec<String>,
    /// ids of active known findings whose triggering shape the generator removed from this case
    pub excluded: Vec<String>,
    /// additional additive counters reported in evidence (e.g. fault runs per history)
    pub counters: Vec<(String, u64)>,
}

/// One generated-search domain of a property
pub trait Domain: Sync {
    fn name(&self) -> &'static str;
    fn cases(&self, tier: Tier) -> u64;
    fn strategy(&self, tier: Tier) -> BoxedStrategy<RawCase>;
    /// decode a raw case into the concrete, replayable case
    fn decode(&self, raw: &RawCase, excl: &Exclusions) -> Value;
    fn run(&self, case: &Value, excl: &Exclusions) -> CaseResult;
}

pub trait Prop: Sync {
    fn id(&self) -> &'static str;
    fn level(&self) -> &'static str;
    fn rule_text(&self) -> String;
    fn assumptions(&self) -> Vec<String>;
    fn domains(&self) -> Vec<Box<dyn Domain>>;
    /// extra fixed checks (enumerations); returns (evaluations, nontrivial, violation)
    fn fixed_checks(&self, _tier: Tier, _excl: &Exclusions) -> Vec<FixedResult> {
        vec![]
    }
}

pub struct FixedResult {
    pub name: String,
    pub evaluations: u64,
    pub nontrivial: u64,
    pub exhaustive: bool,
    pub sample: Value,
    pub violation: Option<(Violation, Value)>,
}

// ---------------------------------------------------------------------------------------
// known findings
// ---------------------------------------------------------------------------------------

#[derive(Clone, Debug, Serialize, Deserialize)]
pub struct Finding {
    pub id: String,
    pub property: String,
    /// "known" or "fixed"
    pub status: String,
    pub what: String,
    #[serde(default)]
    pub commit: Option<String>,
    /// signature: rule name, tags that must all be present, substring of the message
    #[serde(default)]
    pub rule: Option<String>,
    /// any of these rules (empty = see `rule`)
    #[serde(default)]
    pub rules: Vec<String>,
    #[serde(default)]
    pub tags: Vec<String>,
    #[serde(default)]
    pub msg_contains: Option<String>,
    /// reproducer (path relative to /verif)
    #[serde(default)]
    pub reproducer: Option<String>,
    /// further reproducers; the finding is active if any of them still reproduces
    #[serde(default)]
    pub reproducers: Vec<String>,
    /// domain name the reproducer belongs to
    #[serde(default)]
    pub domain: Option<String>,
}

impl Finding {
    pub fn matches(&self, v: &Violation) -> bool {
        let vr = format!("{:?}", v.rule);
        if let Some(r) = &self.rule {
            if vr != *r {
                return false;
            }
        }
        if !self.rules.is_empty() && !self.rules.contains(&vr) {
            return false;
        }
        if !self.tags.iter().all(|t| v.has_tag(t)) {
            return false;
        }
        if let Some(m) = &self.msg_contains {
            if !v.msg.contains(m.as_str()) {
                return false;
            }
        }
        true
    }
}

/// Active known findings (those whose reproducer still reproduces)
#[derive(Clone, Debug, Default)]
pub struct Exclusions {
    pub active: Vec<Finding>,
}

impl Exclusions {
    pub fn is_active(&self, id: &str) -> bool {
        self.active.iter().any(|f| f.id == id)
    }
    pub fn matching(&self, v: &Violation) -> Option<&Finding> {
        self.active.iter().find(|f| f.matches(v))
    }
}

pub fn verif_root() -> PathBuf {
    std::env::var("VERIF_ROOT").map(PathBuf::from).unwrap_or_else(|_| PathBuf::from("/verif"))
}

pub fn load_findings() -> Vec<Finding> {
    let p = verif_root().join("known_findings.json");
    match std::fs::read_to_string(&p) {
        Ok(s) => serde_json::from_str::<Value>(&s)
            .ok()
            .and_then(|v| v.get("findings").cloned())
            .and_then(|f| serde_json::from_value(f).ok())
            .unwrap_or_default(),
        Err(_) => vec![],
    }
}

// ---------------------------------------------------------------------------------------
// running
// ---------------------------------------------------------------------------------------

fn mix(a: u64, b: u64) -> u64 {
    // splitmix64 step
    let mut z = a.wrapping_add(b.wrapping_mul(0x9E37_79B9_7F4A_7C15)).wrapping_add(0x9E37_79B9_7F4A_7C15);
    z = (z ^ (z >> 30)).wrapping_mul(0xBF58_476D_1CE4_E5B9);
    z = (z ^ (z >> 27)).wrapping_mul(0x94D0_49BB_1331_11EB);
    z ^ (z >> 31)
}

fn str_hash(s: &str) -> u64 {
    let mut h = 0xcbf2_9ce4_8422_2325u64;
    for b in s.bytes() {
        h ^= b as u64;
        h = h.wrapping_mul(0x100_0000_01b3);
    }
    h
}

fn seed_bytes(seed: u64, id: &str, domain: &str, shard: u64) -> [u8; 32] {
    let mut out = [0u8; 32];
    let mut x = mix(mix(seed, str_hash(id)), mix(str_hash(domain), shard));
    for i in 0..4 {
        x = mix(x, i as u64);
        out[i * 8..i * 8 + 8].copy_from_slice(&x.to_le_bytes());
    }
    out
}

#[derive(Default)]
struct ShardOut {
    evaluations: u64,
    nontrivial: BTreeSet<u64>,
    classes: BTreeMap<String, u64>,
    foreign: BTreeMap<String, u64>,
    excluded_known: BTreeMap<String, u64>,
    counters: BTreeMap<String, u64>,
    inconclusive: u64,
    samples: Vec<Value>,
    failure: Option<(Value, Violation)>,
}

fn run_shard(prop: &dyn Prop, dom: &dyn Domain, tier: Tier, seed: u64, shard: u64, cases: u32, excl: &Exclusions, _stop: &AtomicBool) -> ShardOut {
    let out = Mutex::new(ShardOut::default());
    let failed = AtomicBool::new(false);
    let cfg = Config {
        cases,
        failure_persistence: None,
        max_shrink_iters: 3000,
        max_shrink_time: 0,
        max_local_rejects: u32::MAX,
        max_global_rejects: u32::MAX,
        verbose: 0,
        ..Config::default()
    };
    let rng = TestRng::from_seed(RngAlgorithm::ChaCha, &seed_bytes(seed, prop.id(), dom.name(), shard));
    let mut runner = TestRunner::new_with_rng(cfg, rng);
    let strat = dom.strategy(tier);
    let res = runner.run(&strat, |raw| {
        let case = dom.decode(&raw, excl);
        watchdog_enter(shard as usize, prop.id(), dom.name(), &case);
        let r = dom.run(&case, excl);
        watchdog_leave(shard as usize);
        let counting = !failed.load(Ordering::Relaxed);
        let mut o = out.lock().unwrap();
        if counting {
            o.evaluations += 1;
            for c in &r.classes {
                *o.classes.entry(c.clone()).or_insert(0) += 1;
            }
            for (k, n) in &r.counters {
                *o.counters.entry(k.clone()).or_insert(0) += n;
            }
            for e in &r.excluded {
                *o.excluded_known.entry(format!("{e} (shape removed by the generator)")).or_insert(0) += 1;
            }
        }
        match r.verdict {
            Verdict::Pass => {
                if counting && r.nontrivial {
                    let h = str_hash(&case.to_string());
                    o.nontrivial.insert(h);
                    if o.samples.len() < 2 {
                        o.samples.push(case.clone());
                    }
                }
                Ok(())
            }
            Verdict::Foreign(v) => {
                if counting {
                    *o.foreign.entry(format!("{:?}", v.rule)).or_insert(0) += 1;
                }
                Ok(())
            }
            Verdict::Inconclusive(_) => {
                if counting {
                    o.inconclusive += 1;
                }
                Ok(())
            }
            Verdict::Violation(v) => {
                if let Some(f) = excl.matching(&v) {
                    if counting {
                        *o.excluded_known.entry(f.id.clone()).or_insert(0) += 1;
                    }
                    return Ok(());
                }
                failed.store(true, Ordering::Relaxed);
                Err(TestCaseError::fail(format!("{:?}: {}", v.rule, v.msg)))
            }
        }
    });
    let mut o = out.into_inner().unwrap();
    if let Err(TestError::Fail(_, raw)) = res {
        // re-run the minimal case to obtain the violation
        let case = dom.decode(&raw, excl);
        let r = dom.run(&case, excl);
        let v = match r.verdict {
            Verdict::Violation(v) => v,
            _ => Violation::new(crate::engine::Rule::Setup, "minimal case did not reproduce (non-deterministic check?)"),
        };
        o.failure = Some((json!({"domain": dom.name(), "case": case, "raw": raw}), v));
    }
    o
}

// ---- wall-clock watchdog (last resort; expiry is exit code 2, never a violation) -----------

type Slot = Option<(Instant, String, String, String)>;
static WATCH: Mutex<Vec<Slot>> = Mutex::new(Vec::new());

fn watchdog_enter(shard: usize, prop: &str, dom: &str, case: &Value) {
    let mut w = WATCH.lock().unwrap();
    if w.len() <= shard {
        w.resize(shard + 1, None);
    }
    w[shard] = Some((Instant::now(), prop.to_string(), dom.to_string(), case.to_string()));
}

fn watchdog_leave(shard: usize) {
    let mut w = WATCH.lock().unwrap();
    if shard < w.len() {
        w[shard] = None;
    }
}

pub fn start_watchdog() {
    let limit: u64 = std::env::var("VERIF_WATCHDOG_S").ok().and_then(|s| s.parse().ok()).unwrap_or(300);
    std::thread::spawn(move || loop {
        std::thread::sleep(std::time::Duration::from_millis(500));
        let w = WATCH.lock().unwrap();
        for s in w.iter().flatten() {
            if s.0.elapsed().as_secs() >= limit {
                let dir = verif_root().join("replays");
                let _ = std::fs::create_dir_all(&dir);
                let body = format!(
                    "{{\"property\": \"{}\", \"watchdog\": true, \"replay\": {{\"domain\": \"{}\", \"case\": {}}}}}",
                    s.1, s.2, s.3
                );
                let p = dir.join(format!("{}-watchdog-{:016x}.json", s.1, str_hash(&body)));
                let _ = std::fs::write(&p, body);
                println!(
                    "WATCHDOG property={} a case ran for more than {} s wall clock; no verdict (case saved to {})",
                    s.1,
                    limit,
                    p.display()
                );
                std::process::exit(2);
            }
        }
    });
}

fn write_replay(prop: &str, payload: &Value, v: &Violation, seed: u64, tier: Tier) -> PathBuf {
    let dir = verif_root().join("replays");
    let _ = std::fs::create_dir_all(&dir);
    let body = json!({
        "property": prop,
        "seed": seed,
        "tier": tier.name(),
        "violation": v,
        "replay": payload,
    });
    let s = serde_json::to_string_pretty(&body).unwrap();
    let h = str_hash(&s);
    let p = dir.join(format!("{}-{:016x}.json", prop, h));
    let _ = std::fs::write(&p, s);
    p
}

/// Replay one stored case file against the property; returns the verdict
pub fn replay_payload(prop: &dyn Prop, payload: &Value, excl: &Exclusions) -> Option<CaseResult> {
    let dname = payload.get("domain")?.as_str()?;
    let case = payload.get("case")?;
    for d in prop.domains() {
        if d.name() == dname {
            return Some(d.run(case, excl));
        }
    }
    None
}

pub fn run_prop(prop: &dyn Prop, tier: Tier, seed: u64) -> i32 {
    let t0 = Instant::now();
    start_watchdog();
    let id = prop.id();
    let findings: Vec<Finding> = load_findings().into_iter().filter(|f| f.property == id).collect();
    let mut excl = Exclusions::default();
    let mut violations: Vec<(PathBuf, Violation)> = Vec::new();
    let mut known_lines = Vec::new();
    let mut stale_reproducers: Vec<String> = Vec::new();
    let none = Exclusions::default();

    // 1. known findings: replay reproducers (reported), activate every listed finding
    for f in findings.iter().filter(|f| f.status == "known") {
        let mut reproduced = false;
        for rp in f.reproducer.iter().chain(f.reproducers.iter()) {
            if reproduced {
                break;
            }
            let path = verif_root().join(rp);
            if let Ok(s) = std::fs::read_to_string(&path) {
                if let Ok(v) = serde_json::from_str::<Value>(&s) {
                    let payload = v.get("replay").cloned().unwrap_or(v);
                    if let Some(r) = replay_payload(prop, &payload, &none) {
                        if let Verdict::Violation(v) = r.verdict {
                            reproduced = f.matches(&v);
                        }
                    }
                }
            }
        }
        // A listed finding is tolerated by its signature whether or not one of its stored
        // reproducers still reproduces: reproducers of concurrency findings depend on the exact
        // schedule, which any unrelated change to the code under test shifts, and a violation the
        // registry lists must not turn into an alarm because of that. (Entries with status
        // "fixed" suppress nothing.) Whether a reproducer reproduced is reported in the evidence.
        known_lines.push(format!("KNOWN-FINDING: property={} {} [{}]", id, f.what, f.id));
        excl.active.push(f.clone());
        if !reproduced {
            stale_reproducers.push(f.id.clone());
        }
    }
    for l in &known_lines {
        println!("{l}");
    }

    // 2. regression inputs (incl. reproducers of fixed findings)
    let mut regress_run = 0u64;
    let rdir = verif_root().join("regress").join(id);
    let mut files: Vec<PathBuf> = std::fs::read_dir(&rdir)
        .map(|d| d.filter_map(|e| e.ok().map(|e| e.path())).collect())
        .unwrap_or_default();
    files.sort();
    for path in files {
        if path.extension().map(|e| e != "json").unwrap_or(true) {
            continue;
        }
        let Ok(s) = std::fs::read_to_string(&path) else { continue };
        let Ok(v) = serde_json::from_str::<Value>(&s) else { continue };
        let payload = v.get("replay").cloned().unwrap_or(v);
        if let Some(r) = replay_payload(prop, &payload, &excl) {
            regress_run += 1;
            if let Verdict::Violation(v) = r.verdict {
                if excl.matching(&v).is_none() {
                    violations.push((path.clone(), v));
                }
            }
        }
    }

    // 3. fixed enumerations
    let mut evaluations = 0u64;
    let mut nontrivial_fixed = 0u64;
    let mut samples: Vec<Value> = Vec::new();
    let mut fixed_report = Vec::new();
    let mut exhaustive_parts = Vec::new();
    if violations.is_empty() {
        for fr in prop.fixed_checks(tier, &excl) {
            evaluations += fr.evaluations;
            nontrivial_fixed += fr.nontrivial;
            fixed_report.push(json!({"name": fr.name, "evaluations": fr.evaluations, "nontrivial": fr.nontrivial, "exhaustive": fr.exhaustive}));
            if fr.exhaustive {
                exhaustive_parts.push(fr.name.clone());
            }
            if samples.len() < 6 {
                samples.push(json!({"fixed": fr.name, "sample": fr.sample}));
            }
            if let Some((v, payload)) = fr.violation {
                let p = write_replay(id, &payload, &v, seed, tier);
                violations.push((p, v));
            }
        }
    }

    // 4. generated search
    let nshards: u64 = std::env::var("VERIF_SHARDS").ok().and_then(|s| s.parse().ok()).unwrap_or(16);
    let mut nontrivial: BTreeSet<u64> = BTreeSet::new();
    let mut classes: BTreeMap<String, u64> = BTreeMap::new();
    let mut foreign: BTreeMap<String, u64> = BTreeMap::new();
    let mut excluded_known: BTreeMap<String, u64> = BTreeMap::new();
    let mut counters: BTreeMap<String, u64> = BTreeMap::new();
    let mut inconclusive = 0u64;
    let mut per_domain = Vec::new();
    if violations.is_empty() {
        for dom in prop.domains() {
            let total = dom.cases(tier);
            if total == 0 {
                continue;
            }
            let per = std::cmp::max(1, total.div_ceil(nshards)) as u32;
            let stop = AtomicBool::new(false);
            let outs: Vec<ShardOut> = std::thread::scope(|sc| {
                let hs: Vec<_> = (0..nshards)
                    .map(|sh| {
                        let dom = &*dom;
                        let excl = &excl;
                        let stop = &stop;
                        std::thread::Builder::new()
                            .stack_size(64 << 20)
                            .spawn_scoped(sc, move || {
                                crate::exec::install_panic_hook();
                                run_shard(prop, dom, tier, seed, sh, per, excl, stop)
                            })
                            .unwrap()
                    })
                    .collect();
                hs.into_iter().map(|h| h.join().expect("shard thread panicked")).collect()
            });
            let mut dom_eval = 0;
            let mut dom_nt = 0;
            for (sh, o) in outs.into_iter().enumerate() {
                dom_eval += o.evaluations;
                dom_nt += o.nontrivial.len();
                evaluations += o.evaluations;
                nontrivial.extend(o.nontrivial.iter().map(|h| mix(*h, str_hash(dom.name()))));
                for (k, v) in o.classes {
                    *classes.entry(format!("{}:{}", dom.name(), k)).or_insert(0) += v;
                }
                for (k, v) in o.foreign {
                    *foreign.entry(format!("{}:{}", dom.name(), k)).or_insert(0) += v;
                }
                for (k, v) in o.excluded_known {
                    *excluded_known.entry(k).or_insert(0) += v;
                }
                for (k, v) in o.counters {
                    *counters.entry(format!("{}:{}", dom.name(), k)).or_insert(0) += v;
                }
                inconclusive += o.inconclusive;
                if samples.len() < 6 {
                    for s in o.samples.into_iter().take(1) {
                        samples.push(json!({"domain": dom.name(), "case": s}));
                    }
                }
                if let Some((payload, v)) = o.failure {
                    if violations.is_empty() {
                        let _ = sh;
                        let p = write_replay(id, &payload, &v, seed, tier);
                        violations.push((p, v));
                    }
                }
            }
            per_domain.push(json!({"domain": dom.name(), "evaluations": dom_eval, "nontrivial": dom_nt}));
            if !violations.is_empty() {
                break;
            }
        }
    }

    let wall = t0.elapsed().as_secs_f64();
    let distinct = nontrivial.len() as u64 + nontrivial_fixed;
    if samples.is_empty() {
        samples.push(json!({"note": "no non-trivial sample collected before the run stopped"}));
    }
    let ev = json!({
        "property_id": id,
        "tier": tier.name(),
        "seed": seed,
        "level": prop.level(),
        "coverage": {
            "evaluations": evaluations,
            "distinct_nontrivial": distinct,
            "rule": prop.rule_text(),
            "samples": samples,
            "classes": classes,
            "per_domain": per_domain,
            "fixed_checks": fixed_report,
            "exhaustive_parts": exhaustive_parts,
            "coverage_guided": fuzz_stats(id, tier),
            "foreign_discards": foreign,
            "excluded_known": excluded_known,
            "counters": counters,
            "inconclusive": inconclusive,
            "regression_inputs_replayed": regress_run,
            "known_findings_active": excl.active.iter().map(|f| f.id.clone()).collect::<Vec<_>>(),
            "known_findings_without_reproducing_reproducer": stale_reproducers,
            "shards": nshards,
        },
        "assumptions": prop.assumptions(),
        "wall_s": wall,
        "violations": violations.len(),
    });
    let edir = verif_root().join("evidence");
    // VERIF_NO_EVIDENCE: sensitivity runs against a deliberately changed tree (tools/seeded.sh)
    // must not overwrite the evidence of the real tree
    if std::env::var("VERIF_NO_EVIDENCE").is_err() {
        let _ = std::fs::create_dir_all(&edir);
        let _ = std::fs::write(edir.join(format!("{id}.json")), serde_json::to_string_pretty(&ev).unwrap());
    }

    if let Some((p, v)) = violations.first() {
        println!("VIOLATION property={} replay={}", id, p.display());
        println!("  rule={:?} {}", v.rule, v.msg);
        1
    } else {
        println!(
            "OK property={} tier={} seed={} evaluations={} distinct_nontrivial={} foreign={} excluded_known={} wall={:.1}s",
            id,
            tier.name(),
            seed,
            evaluations,
            distinct,
            foreign.values().sum::<u64>(),
            excluded_known.values().sum::<u64>(),
            wall
        );
        0
    }
}

/// `qv replay <path>`: strict replay of one file (no known-finding tolerance)
pub fn replay_file(props: &[Box<dyn Prop>], path: &Path) -> i32 {
    let Ok(s) = std::fs::read_to_string(path) else {
        eprintln!("cannot read {}", path.display());
        return 2;
    };
    let Ok(v) = serde_json::from_str::<Value>(&s) else {
        eprintln!("cannot parse {}", path.display());
        return 2;
    };
    let Some(pid) = v.get("property").and_then(|p| p.as_str()) else {
        eprintln!("no property field");
        return 2;
    };
    let payload = v.get("replay").cloned().unwrap_or(Value::Null);
    for p in props {
        if p.id() == pid {
            let none = Exclusions::default();
            return match replay_payload(p.as_ref(), &payload, &none) {
                Some(CaseResult {
                    verdict: Verdict::Violation(v),
                    ..
                }) => {
                    println!("VIOLATION property={} replay={}", pid, path.display());
                    println!("  rule={:?} {}", v.rule, v.msg);
                    println!("  tags={:?} op={:?} cluster={:?}", v.tags, v.op, v.cluster);
                    1
                }
                Some(CaseResult {
                    verdict: Verdict::Foreign(v),
                    ..
                }) => {
                    println!("replay: cut short by a rule another property owns: {:?} {}", v.rule, v.msg);
                    0
                }
                Some(CaseResult {
                    verdict: Verdict::Inconclusive(m),
                    ..
                }) => {
                    println!("replay: inconclusive: {m}");
                    2
                }
                Some(_) => {
                    println!("replay: property {} holds on {}", pid, path.display());
                    0
                }
                None => {
                    eprintln!("replay payload has no matching domain");
                    2
                }
            };
        }
    }
    eprintln!("unknown property {pid}");
    2
}

/// `qv triage <ID> <n>`: run n generated cases per domain (single thread) and print a histogram
/// of every non-pass outcome (owned or foreign) keyed by rule + first tags, with one example.
pub fn triage(prop: &dyn Prop, seed: u64, n: u32) {
    use proptest::strategy::ValueTree;
    let excl = Exclusions::default();
    for dom in prop.domains() {
        if dom.cases(Tier::Quick) == 0 {
            continue;
        }
        let cfg = Config {
            cases: n,
            failure_persistence: None,
            ..Config::default()
        };
        let rng = TestRng::from_seed(RngAlgorithm::ChaCha, &seed_bytes(seed, prop.id(), dom.name(), 0));
        let mut runner = TestRunner::new_with_rng(cfg, rng);
        let strat = dom.strategy(Tier::Quick);
        let mut hist: BTreeMap<String, (u64, String, Value)> = BTreeMap::new();
        let mut pass = 0u64;
        let mut nontrivial = 0u64;
        for _ in 0..n {
            let raw = strat.new_tree(&mut runner).unwrap().current();
            let case = dom.decode(&raw, &excl);
            let r = dom.run(&case, &excl);
            let (kind, v) = match r.verdict {
                Verdict::Pass => {
                    pass += 1;
                    if r.nontrivial {
                        nontrivial += 1;
                    }
                    continue;
                }
                Verdict::Violation(v) => ("OWNED", v),
                Verdict::Foreign(v) => ("foreign", v),
                Verdict::Inconclusive(m) => ("inconclusive", Violation::new(crate::engine::Rule::Setup, m)),
            };
            let short: String = v.msg.chars().filter(|c| !c.is_ascii_digit()).take(60).collect();
            let mut tg: Vec<&String> = v.tags.iter().filter(|t| t.starts_with("hist:") || t.starts_with("cache_") || t.starts_with("blocked:") || t.starts_with("err:")).collect();
            tg.sort();
            let key = format!("{kind} {:?} {} {:?}", v.rule, short, tg);
            let e = hist.entry(key).or_insert((0, v.msg.clone(), case.clone()));
            e.0 += 1;
        }
        println!("== domain {}: {} cases, pass {}, nontrivial {}", dom.name(), n, pass, nontrivial);
        let mut items: Vec<_> = hist.into_iter().collect();
        items.sort_by_key(|x| std::cmp::Reverse(x.1 .0));
        for (i, (k, (cnt, msg, case))) in items.iter().enumerate() {
            println!("{cnt:6}  {k}\n        e.g. {msg}");
            let dir = verif_root().join("replays");
            let _ = std::fs::create_dir_all(&dir);
            let p = dir.join(format!("triage-{}-{}-{}.json", prop.id(), dom.name(), i));
            let body = json!({"property": prop.id(), "violation": {"msg": msg}, "replay": {"domain": dom.name(), "case": case}});
            let _ = std::fs::write(&p, serde_json::to_string_pretty(&body).unwrap());
            println!("        saved {}", p.display());
        }
    }
}

/// Search the domain of a known finding for fresh reproducers (fixes elsewhere change timing and
/// make old ones pass): saves up to `want` generated cases whose owned violation matches the
/// finding's signature as findings/<id>-r<k>.json. The registry (tools/findings.py) lists them.
pub fn refind(prop: &dyn Prop, finding: &Finding, seed: u64, n: u32, want: usize) -> usize {
    use proptest::strategy::ValueTree;
    let excl = Exclusions::default();
    let mut found = 0usize;
    for dom in prop.domains() {
        if let Some(d) = &finding.domain {
            if d != dom.name() {
                continue;
            }
        }
        let cfg = Config { cases: n, failure_persistence: None, ..Config::default() };
        let rng = TestRng::from_seed(RngAlgorithm::ChaCha, &seed_bytes(seed, prop.id(), dom.name(), 77));
        let mut runner = TestRunner::new_with_rng(cfg, rng);
        let strat = dom.strategy(Tier::Quick);
        let mut best: Vec<(usize, Value, Violation)> = Vec::new();
        for _ in 0..n {
            let raw = strat.new_tree(&mut runner).unwrap().current();
            let case = dom.decode(&raw, &excl);
            let r = dom.run(&case, &excl);
            if let Verdict::Violation(v) = r.verdict {
                let avoid = std::env::var("VERIF_AVOID_TAG").ok();
                if finding.matches(&v) && !avoid.map(|a| v.has_tag(&a)).unwrap_or(false) {
                    // prefer small cases and violations with few other tags
                    let size = serde_json::to_string(&case).map(|s| s.len()).unwrap_or(usize::MAX) + 400 * v.tags.len();
                    best.push((size, case, v));
                }
            }
        }
        best.sort_by_key(|b| b.0);
        for (k, (_, case, v)) in best.into_iter().take(want).enumerate() {
            let p = verif_root().join("findings").join(format!("{}-r{}.json", finding.id, k));
            let body = json!({"property": prop.id(), "violation": v, "replay": {"domain": dom.name(), "case": case}});
            let _ = std::fs::write(&p, serde_json::to_string_pretty(&body).unwrap());
            println!("saved {} ({:?} {:?})", p.display(), v.rule, v.tags);
            found += 1;
        }
    }
    found
}

/// statistics left by the libFuzzer stage of `check` (thorough tier), folded into the evidence
fn fuzz_stats(id: &str, tier: Tier) -> Vec<Value> {
    if !matches!(tier, Tier::Thorough) {
        return vec![];
    }
    let p = verif_root().join("target").join(format!("fuzz-stats-{id}.jsonl"));
    match std::fs::read_to_string(&p) {
        Ok(s) => s.lines().filter_map(|l| serde_json::from_str(l).ok()).collect(),
        Err(_) => vec![],
    }
}
