//! Deterministic single-threaded executor. Every decision (which ready task to poll,
//! which in-flight backend request to complete) is read from a choice vector.
use crate::sim::{World, CUR_TASK};
use std::cell::RefCell;
use std::future::Future;
use std::panic::{catch_unwind, AssertUnwindSafe};
use std::pin::Pin;
use std::sync::atomic::{AtomicBool, Ordering};
use std::sync::Arc;
use std::task::{Context, Poll, Wake, Waker};

pub type Task<'a> = Pin<Box<dyn Future<Output = ()> + 'a>>;

struct Flag(AtomicBool);
impl Wake for Flag {
    fn wake(self: Arc<Self>) {
        self.0.store(true, Ordering::Relaxed);
    }
    fn wake_by_ref(self: &Arc<Self>) {
        self.0.store(true, Ordering::Relaxed);
    }
}

#[derive(Debug, Clone, PartialEq, Eq)]
pub enum Stop {
    AllDone,
    /// unfinished tasks, nothing ready, nothing in flight
    Deadlock(Vec<usize>),
    /// step budget exhausted
    Budget,
    /// a poll panicked: (task, message)
    Panic(usize, String),
}

pub struct RunStats {
    pub stop: Stop,
    pub steps: u64,
    pub choices_used: usize,
    /// number of decisions where more than one alternative existed
    pub branch_points: u64,
    /// decisions that did not take alternative 0
    pub nondefault: u64,
}

thread_local! {
    static LAST_PANIC: RefCell<Option<String>> = const { RefCell::new(None) };
}

/// Install a process-wide silent panic hook that records message + location per thread.
pub fn install_panic_hook() {
    static ONCE: std::sync::Once = std::sync::Once::new();
    ONCE.call_once(|| {
        std::panic::set_hook(Box::new(|info| {
            let msg = if let Some(s) = info.payload().downcast_ref::<&str>() {
                s.to_string()
            } else if let Some(s) = info.payload().downcast_ref::<String>() {
                s.clone()
            } else {
                "<non-string panic>".to_string()
            };
            let loc = info
                .location()
                .map(|l| format!("{}:{}", l.file(), l.line()))
                .unwrap_or_default();
            if std::env::var("VERIF_BT").is_ok() {
                eprintln!("panic: {} @ {}\n{}", msg, loc, std::backtrace::Backtrace::force_capture());
            }
            LAST_PANIC.with(|p| *p.borrow_mut() = Some(format!("{} @ {}", msg, loc)));
        }));
    });
}

pub fn take_last_panic() -> Option<String> {
    LAST_PANIC.with(|p| p.borrow_mut().take())
}

/// Run `f` catching panics; returns Err(message @ file:line) on panic.
pub fn guarded<R>(f: impl FnOnce() -> R) -> Result<R, String> {
    match catch_unwind(AssertUnwindSafe(f)) {
        Ok(r) => Ok(r),
        Err(_) => Err(take_last_panic().unwrap_or_else(|| "<panic>".into())),
    }
}

/// Monotone index mapping: shrinking the choice shrinks the index.
#[inline]
pub fn pick(choice: u16, n: usize) -> usize {
    ((choice as usize) * n) >> 16
}

/// Run all tasks to completion under the choice vector.
pub fn run_tasks(world: &World, mut tasks: Vec<Option<Task<'_>>>, choices: &[u16], budget: u64) -> RunStats {
    let n = tasks.len();
    let flags: Vec<Arc<Flag>> = (0..n).map(|_| Arc::new(Flag(AtomicBool::new(true)))).collect();
    let wakers: Vec<Waker> = flags.iter().map(|f| Waker::from(f.clone())).collect();
    let mut ci = 0usize;
    let mut steps = 0u64;
    let mut branch_points = 0u64;
    let mut nondefault = 0u64;
    world.set_scheduled(true);
    let stop = loop {
        let ready: Vec<usize> = (0..n)
            .filter(|&i| tasks[i].is_some() && flags[i].0.load(Ordering::Relaxed))
            .collect();
        let inflight = world.inflight_seqs();
        let total = ready.len() + inflight.len();
        if total == 0 {
            let blocked: Vec<usize> = (0..n).filter(|&i| tasks[i].is_some()).collect();
            if blocked.is_empty() {
                break Stop::AllDone;
            }
            break Stop::Deadlock(blocked);
        }
        if steps >= budget {
            break Stop::Budget;
        }
        steps += 1;
        let c = if ci < choices.len() {
            let c = choices[ci];
            ci += 1;
            c
        } else {
            0
        };
        let k = pick(c, total);
        if total > 1 {
            branch_points += 1;
            if k != 0 {
                nondefault += 1;
            }
        }
        if k < ready.len() {
            let t = ready[k];
            flags[t].0.store(false, Ordering::Relaxed);
            world.tick();
            CUR_TASK.with(|c| c.set(t));
            let mut cx = Context::from_waker(&wakers[t]);
            let fut = tasks[t].as_mut().unwrap();
            let r = catch_unwind(AssertUnwindSafe(|| fut.as_mut().poll(&mut cx)));
            CUR_TASK.with(|c| c.set(usize::MAX));
            match r {
                Ok(Poll::Ready(())) => {
                    tasks[t] = None;
                }
                Ok(Poll::Pending) => {}
                Err(_) => {
                    let msg = take_last_panic().unwrap_or_else(|| "<panic>".into());
                    // the panicking future must not be polled or dropped normally again
                    std::mem::forget(tasks[t].take());
                    // other tasks may hold references into poisoned state: leak them too
                    for t in tasks.iter_mut() {
                        std::mem::forget(t.take());
                    }
                    break Stop::Panic(t, msg);
                }
            }
        } else {
            let seq = inflight[k - ready.len()];
            world.complete(seq);
        }
    };
    world.set_scheduled(false);
    // On deadlock / budget the unfinished futures hold lock guards and request futures;
    // dropping them is safe (request futures deregister themselves).
    drop(tasks);
    RunStats {
        stop,
        steps,
        choices_used: ci,
        branch_points,
        nondefault,
    }
}

/// Drive a single future to completion in immediate mode (every request completes on
/// first poll). Returns Err on panic; Ok(None) if the future blocked forever (self-deadlock).
pub fn block_on_immediate<R>(world: &World, fut: impl Future<Output = R>) -> Result<Option<R>, String> {
    world.set_scheduled(false);
    let flag = Arc::new(Flag(AtomicBool::new(true)));
    let waker = Waker::from(flag.clone());
    let mut cx = Context::from_waker(&waker);
    let mut fut = Box::pin(fut);
    CUR_TASK.with(|c| c.set(0));
    let res = loop {
        if !flag.0.swap(false, Ordering::Relaxed) {
            // nobody woke us and nothing is in flight: blocked forever
            break Ok(None);
        }
        match catch_unwind(AssertUnwindSafe(|| fut.as_mut().poll(&mut cx))) {
            Ok(Poll::Ready(r)) => break Ok(Some(r)),
            Ok(Poll::Pending) => continue,
            Err(_) => {
                std::mem::forget(fut);
                CUR_TASK.with(|c| c.set(usize::MAX));
                return Err(take_last_panic().unwrap_or_else(|| "<panic>".into()));
            }
        }
    };
    CUR_TASK.with(|c| c.set(usize::MAX));
    res
}
