//! Sequential history interpreter: runs a `SeqCase` against the real `Qcow2Dev` on simulated
//! files and evaluates the monitors. The first broken rule stops the run.
use crate::case::*;
use crate::exec::{self, Stop};
use crate::model::{MKind, Model};
use crate::pat::POISON;
use crate::sim::{ABuf, ReqKind, SimFile, World};
use crate::spec::builder::{self, Truth};
use crate::spec::checker::{self, Mode};
use qcow2_rs::dev::Qcow2Dev;
use qcow2_rs::meta::{MappingSource, Qcow2Header};
use serde::{Deserialize, Serialize};
use std::cell::RefCell;
use std::future::Future;

#[derive(Clone, Copy, Debug, PartialEq, Eq, Hash, Serialize, Deserialize)]
pub enum Rule {
    /// read returned a count different from the requested length
    ReadLen,
    /// read returned bytes that differ from the reference disk
    ReadData,
    /// sweep after a modifying operation differs from the reference disk
    Frame,
    /// get_mapping disagrees with the model's cluster kind
    MappingKind,
    /// content after flush + reopen differs
    Reopen,
    /// reopen of a flushed image failed
    ReopenOpen,
    /// independent checker: structural corruption after flush
    CheckCorrupt,
    /// independent checker: stored refcount below references after flush
    CheckUnder,
    /// independent checker: stored refcount above references after flush
    CheckLeak,
    /// a call with valid arguments returned Err
    ApiErr,
    /// a call panicked
    Panic,
    /// a call blocked forever
    Deadlock,
    /// a call exceeded the step budget
    Budget,
    /// a modifying request reached a read-only / backing file
    RoWrite,
    /// request offset/length/buffer not aligned to the block size
    Align,
    /// discard returned Err on a writable device
    DiscardErr,
    /// a released cluster is not free after flush (discard / cow)
    NotReleased,
    /// building / opening the initial image failed
    Setup,
    /// need_flush_meta() false but file and memory disagree
    NeedFlush,
    /// host cluster with more than one owner / refcount != owners
    Ownership,
    /// request validation: wrong result for bad arguments
    Validation,
    /// request validation: rejected call had side effects
    SideEffect,
}

#[derive(Clone, Debug, Serialize, Deserialize)]
pub struct Violation {
    pub rule: Rule,
    pub msg: String,
    /// index of the operation at which the rule broke
    pub op: Option<usize>,
    /// guest cluster concerned, if any
    pub cluster: Option<usize>,
    /// tags describing the concerned cluster / call (for ownership decisions and signatures)
    pub tags: Vec<String>,
}

impl Violation {
    pub fn new(rule: Rule, msg: impl Into<String>) -> Self {
        Violation {
            rule,
            msg: msg.into(),
            op: None,
            cluster: None,
            tags: vec![],
        }
    }
    pub fn at(mut self, op: usize) -> Self {
        self.op = Some(op);
        self
    }
    pub fn tag(mut self, t: impl Into<String>) -> Self {
        self.tags.push(t.into());
        self
    }
    pub fn tags(mut self, t: Vec<String>) -> Self {
        self.tags.extend(t);
        self
    }
    pub fn has_tag(&self, t: &str) -> bool {
        self.tags.iter().any(|x| x == t)
    }
}

#[derive(Clone, Debug)]
pub struct SeqCfg {
    /// full sweep after every modifying op (bounded by size, see `sweep_limit`)
    pub sweep: bool,
    pub sweep_limit: usize,
    /// after each successful flush: independent strict check of the file bytes
    pub check_on_flush: bool,
    /// after each successful flush: copy bytes, open a fresh device, compare sweep
    pub reopen_on_flush: bool,
    /// extra parameter sets used for the reopen comparison
    pub reopen_params: Vec<DevParams>,
    /// get_mapping vs model kinds at the end
    pub mapping_check: bool,
    /// evaluate the alignment monitor (needs aligned caller buffers: always the case)
    pub align: bool,
    /// append a final flush (+ checks) if the history does not end with one
    pub final_flush: bool,
    /// keep payloads in the log
    pub keep_data: bool,
    /// check released clusters after discard (C11) at the next flush
    pub release_check: bool,
    /// evaluate need_flush_meta() == false => reopen agrees, after every op
    pub need_flush_check: bool,
    /// ownership monitor at quiescent points
    pub ownership: bool,
    /// record sync points (Flush directly followed by Fsync) with the acknowledged content
    pub record_syncs: bool,
    /// track growth of the refcount structures / L1 table and tag violations with it
    pub track_growth: bool,
}

impl Default for SeqCfg {
    fn default() -> Self {
        SeqCfg {
            sweep: true,
            sweep_limit: 1 << 20,
            check_on_flush: true,
            reopen_on_flush: true,
            reopen_params: vec![],
            mapping_check: true,
            align: true,
            final_flush: true,
            keep_data: false,
            release_check: true,
            need_flush_check: false,
            ownership: false,
            record_syncs: false,
            track_growth: false,
        }
    }
}

#[derive(Clone, Debug, Default, Serialize, Deserialize)]
pub struct SeqStats {
    pub ops_done: usize,
    pub reads: usize,
    pub writes: usize,
    pub discards: usize,
    pub flushes: usize,
    pub reopens: usize,
    pub sub_cluster_writes: usize,
    pub straddling_writes: usize,
    pub multi_cluster_ops: usize,
    pub reads_of_modified: usize,
    pub reads_of_initial_nonzero: usize,
    pub read_unwritten_rest: usize,
    pub cow_writes: usize,
    pub cow_backing: usize,
    pub cow_compressed: usize,
    pub reads_after_cow: usize,
    pub discard_freed: usize,
    pub discard_boundary: usize,
    pub cache_full_events: usize,
    pub requests: usize,
    pub meta_requests_bs_gt_512: usize,
    pub header_writes: usize,
    pub compressed_reads: usize,
    pub alloc_between_flushes: usize,
    pub host_len_start: usize,
    pub host_len_end: usize,
    pub checker_runs: usize,
    pub reopen_compares: usize,
    pub sched_branch_points: u64,
    pub sched_nondefault: u64,
    pub new_l2_tables: usize,
    pub new_refblocks: usize,
    pub backing_short_reads: usize,
    pub l1_or_rt_growth: usize,
    pub need_flush_false_samples: usize,
    pub ownership_checks: usize,
    pub owner_changes: usize,
}

pub struct Layers {
    pub bytes: Vec<Vec<u8>>,
    pub truths: Vec<Option<Truth>>,
}

/// Build the file bytes of every layer. Errors are setup problems (not violations), except
/// a panic inside the library's formatter which is reported as such.
pub fn build_layers(layers: &[LayerSpec]) -> Result<Layers, Violation> {
    let mut bytes = Vec::new();
    let mut truths = Vec::new();
    for (i, l) in layers.iter().enumerate() {
        match l {
            LayerSpec::Formatted {
                cluster_bits,
                refcount_order,
                vsize,
                fmt_bs_bits,
            } => {
                let (cb, ro, vs, bs) = (*cluster_bits as usize, *refcount_order, *vsize, 1usize << *fmt_bs_bits);
                let r = exec::guarded(|| {
                    let (rc_t, rc_b, _) = Qcow2Header::calculate_meta_params(vs, cb, ro, bs);
                    let clusters = 1 + rc_t.1 + rc_b.1;
                    let img_size = ((clusters as usize) << cb) + bs;
                    let mut buf = vec![0u8; img_size];
                    Qcow2Header::format_qcow2(&mut buf, vs, cb, ro, bs).map(|_| buf)
                });
                match r {
                    Ok(Ok(b)) => {
                        bytes.push(b);
                        truths.push(None);
                    }
                    Ok(Err(e)) => {
                        return Err(Violation::new(Rule::Setup, format!("format_qcow2 failed: {e:?}")).tag("format"))
                    }
                    Err(p) => {
                        return Err(Violation::new(Rule::Panic, format!("format_qcow2 panicked: {p}")).tag("format"))
                    }
                }
            }
            LayerSpec::Built(spec) => {
                let mut s = spec.clone();
                s.backing = if i + 1 < layers.len() {
                    Some(layer_name(i + 1))
                } else {
                    None
                };
                match builder::build(&s) {
                    Ok((b, t)) => {
                        bytes.push(b);
                        truths.push(Some(t));
                    }
                    Err(e) => return Err(Violation::new(Rule::Setup, format!("builder: {e}")).tag("builder")),
                }
            }
        }
    }
    Ok(Layers { bytes, truths })
}

pub type Dev = Qcow2Dev<SimFile>;

/// Open the device chain whose top file is `top` (replicates qcow2_setup_dev_fn with the
/// public API). Ok(Err(msg)) = the library refused; Err(panic message) = it panicked.
pub fn open_chain(world: &World, top: usize, params: &DevParams, ro: bool) -> Result<Result<Dev, String>, String> {
    fn rec(world: &World, id: usize, p: qcow2_rs::dev::Qcow2DevParams, depth: usize) -> Result<Result<Dev, String>, String> {
        if depth > 8 {
            return Ok(Err("backing chain too deep".into()));
        }
        let io = world.open(id);
        let name = world.0.borrow().files[id].name.clone();
        let path = std::path::PathBuf::from(&name);
        let r = exec::block_on_immediate(world, qcow2_rs::utils::qcow2_alloc_dev(&path, io, &p))?;
        let (mut dev, back) = match r {
            None => return Ok(Err("open blocked".into())),
            Some(Err(e)) => return Ok(Err(format!("{e:?}"))),
            Some(Ok(x)) => x,
        };
        if let Some(bp) = back {
            let bname = bp.to_string_lossy().to_string();
            let bid = match world.file_id(&bname) {
                Some(b) => b,
                None => return Ok(Err(format!("backing file {bname} not found"))),
            };
            let mut bpar = p.clone();
            bpar.mark_backing_dev(Some(true));
            match rec(world, bid, bpar, depth + 1)? {
                Ok(b) => dev.set_backing_dev(Box::new(b)),
                Err(e) => return Ok(Err(e)),
            }
        }
        Ok(Ok(dev))
    }
    let dev = match rec(world, top, params.to_lib(ro), 0)? {
        Ok(d) => d,
        Err(e) => return Ok(Err(e)),
    };
    match exec::block_on_immediate(world, dev.qcow2_prep_io())? {
        None => Ok(Err("prep_io blocked".into())),
        Some(Err(e)) => Ok(Err(format!("prep_io: {e:?}"))),
        Some(Ok(())) => Ok(Ok(dev)),
    }
}

pub enum Driven<R> {
    Done(R),
    Panic(String),
    Deadlock,
    Budget,
}

/// Scheduler state of a sequential run
pub struct Sched {
    pub choices: Option<Vec<u16>>,
    pub cursor: usize,
    pub branch_points: u64,
    pub nondefault: u64,
}

impl Sched {
    pub fn new(c: Option<Vec<u16>>) -> Self {
        Sched {
            choices: c,
            cursor: 0,
            branch_points: 0,
            nondefault: 0,
        }
    }
}

pub const CALL_BUDGET: u64 = 2_000_000;

/// Drive one API call to completion.
pub fn drive<R>(world: &World, sched: &mut Sched, fut: impl Future<Output = R>) -> Driven<R> {
    qcow2_rs::cache::verif_set_tick_budget(TICK_BUDGET);
    world.0.borrow_mut().req_budget = REQ_BUDGET;
    let r = drive_inner(world, sched, fut);
    qcow2_rs::cache::verif_set_tick_budget(u64::MAX);
    world.0.borrow_mut().req_budget = u64::MAX;
    match r {
        Driven::Panic(m) if m.contains("verif: tick budget exceeded") || m.contains("sim: request budget exceeded") => Driven::Budget,
        r => r,
    }
}

/// cache lookups / backend requests one API call may perform before it is reported as a
/// livelock suspect (two to three orders of magnitude above the largest terminating call)
pub const TICK_BUDGET: u64 = 5_000_000;
pub const REQ_BUDGET: u64 = 1_000_000;

fn drive_inner<R>(world: &World, sched: &mut Sched, fut: impl Future<Output = R>) -> Driven<R> {
    match &sched.choices {
        None => match exec::block_on_immediate(world, fut) {
            Ok(Some(r)) => Driven::Done(r),
            Ok(None) => Driven::Deadlock,
            Err(p) => Driven::Panic(p),
        },
        Some(ch) => {
            let out: RefCell<Option<R>> = RefCell::new(None);
            let task: exec::Task = Box::pin(async {
                let r = fut.await;
                *out.borrow_mut() = Some(r);
            });
            let rest: &[u16] = if sched.cursor < ch.len() { &ch[sched.cursor..] } else { &[] };
            let st = exec::run_tasks(world, vec![Some(task)], rest, CALL_BUDGET);
            sched.cursor += st.choices_used;
            sched.branch_points += st.branch_points;
            sched.nondefault += st.nondefault;
            match st.stop {
                Stop::AllDone => Driven::Done(out.into_inner().expect("task finished without result")),
                Stop::Deadlock(_) => Driven::Deadlock,
                Stop::Budget => Driven::Budget,
                Stop::Panic(_, m) => Driven::Panic(m),
            }
        }
    }
}

fn driven_violation<R>(d: Driven<R>, what: &str) -> Result<R, Violation> {
    match d {
        Driven::Done(r) => Ok(r),
        Driven::Panic(m) => Err(Violation::new(Rule::Panic, format!("{what} panicked: {m}")).tag(format!("panic:{}", panic_site(&m)))),
        Driven::Deadlock => Err(Violation::new(Rule::Deadlock, format!("{what} blocked forever (no ready task, no request in flight)"))),
        Driven::Budget => Err(Violation::new(Rule::Budget, format!("{what} exceeded the step budget"))),
    }
}

/// panic site without line number: "message-prefix @ file"
pub fn panic_site(m: &str) -> String {
    let (msg, loc) = match m.rsplit_once(" @ ") {
        Some((a, b)) => (a, b),
        None => (m, ""),
    };
    let file = loc.rsplit_once(':').map(|x| x.0).unwrap_or(loc);
    let file = file.rsplit_once("/src/").map(|x| x.1).unwrap_or(file);
    let short: String = msg.chars().filter(|c| !c.is_ascii_digit()).take(48).collect();
    format!("{short}@{file}")
}

/// Read the whole virtual disk through `dev` in chunks whose sizes vary with `salt`.
pub fn sweep(world: &World, sched: &mut Sched, dev: &Dev, vsize: u64, bs: usize, cs: usize, salt: usize) -> Result<Vec<u8>, Violation> {
    let mut out = vec![0u8; vsize as usize];
    let sizes = [cs, 3 * bs, 2 * cs + bs, bs, 5 * cs, cs + 2 * bs, 7 * bs];
    let mut off = 0u64;
    let mut k = salt;
    let readable = vsize - (vsize % bs as u64);
    while off < readable {
        let want = std::cmp::min(sizes[k % sizes.len()] as u64, readable - off) as usize;
        let want = std::cmp::min(want, 4 << 20);
        k += 1;
        let mut buf = ABuf::new(want, POISON);
        let r = driven_violation(drive(world, sched, dev.read_at(&mut buf, off)), "read_at(sweep)")?;
        match r {
            Ok(n) if n == want => {}
            Ok(n) => {
                return Err(Violation::new(
                    Rule::ReadLen,
                    format!("sweep read_at(off={off}, len={want}) returned {n}"),
                )
                .tag("sweep"))
            }
            Err(e) => {
                return Err(Violation::new(
                    Rule::ApiErr,
                    format!("sweep read_at(off={off}, len={want}) failed: {e:?}"),
                )
                .tag("read")
                .tag("sweep"))
            }
        }
        out[off as usize..off as usize + want].copy_from_slice(&buf);
        off += want as u64;
    }
    Ok(out)
}

pub struct SeqRun {
    pub world: World,
    pub model: Model,
    pub stats: SeqStats,
    pub violation: Option<Violation>,
    /// case was cut short for a reason that is not a verdict (e.g. simulated file too big)
    pub inconclusive: Option<String>,
    /// guest clusters released by discard/cow since the last flush: (guest cluster, host offset)
    pub released: Vec<(usize, u64)>,
    /// host clusters (indices) of compressed clusters that have been overwritten
    pub replaced_comp_hosts: std::collections::BTreeSet<u64>,
    /// host clusters (indices) released by discard
    pub discarded_hosts: std::collections::BTreeSet<u64>,
    pub truths: Vec<Option<Truth>>,
    /// (event at invocation, event at return) of every executed op
    pub op_events: Vec<(u64, u64)>,
    /// sync points: (event after fsync_range returned, guest content acknowledged by then);
    /// recorded when an Fsync op directly follows a successful Flush
    pub sync_points: Vec<(u64, Vec<u8>)>,
    pub final_params: Option<DevParams>,
    pub growth: Growth,
    /// a cache slice was evicted while a multi-cluster call (concurrent sub-requests) ran
    pub evicted_in_multi: bool,
    pub cur_multi: bool,
    pub cur_evict0: u64,
}

#[derive(Clone, Debug, Default)]
pub struct Growth {
    pub new_refblocks: usize,
    pub reftable_changed: bool,
    pub l1_changed: bool,
}

fn cluster_tags(model: &Model, g: usize) -> Vec<String> {
    let mut t = vec![format!("kind:{:?}", model.kind[g])];
    if model.cow_done[g] {
        t.push("cow_done".into());
    }
    if model.has_backing {
        t.push("has_backing".into());
    }
    t
}

fn mismatch_violation(rule: Rule, model: &Model, off: u64, got: &[u8], what: &str) -> Option<Violation> {
    model.first_mismatch(off, got).map(|(boff, exp, g)| {
        let cl = (boff as usize) / model.cs;
        let mut v = Violation::new(
            rule,
            format!("{what}: guest offset {boff} (cluster {cl}) expected {exp}, got {g}"),
        );
        v.cluster = Some(cl);
        v.tags = cluster_tags(model, cl);
        v.tags.push(format!("got:{}", g.split('(').next().unwrap_or("")));
        v
    })
}

/// Run a sequential case.
pub fn run_seq(case: &SeqCase, cfg: &SeqCfg) -> SeqRun {
    let world = World::new();
    let mut run = SeqRun {
        world: world.clone(),
        model: Model {
            cs: 512,
            vsize: 0,
            disk: vec![],
            kind: vec![],
            has_backing: false,
            cow_done: vec![],
            touched: vec![],
            init_nonzero: vec![],
        },
        stats: SeqStats::default(),
        violation: None,
        inconclusive: None,
        released: vec![],
        replaced_comp_hosts: Default::default(),
        discarded_hosts: Default::default(),
        truths: vec![],
        op_events: vec![],
        sync_points: vec![],
        final_params: None,
        growth: Growth::default(),
        evicted_in_multi: false,
        cur_multi: false,
        cur_evict0: 0,
    };
    let layers = match build_layers(&case.layers) {
        Ok(l) => l,
        Err(v) => {
            if v.rule == Rule::Setup {
                run.inconclusive = Some(v.msg);
            } else {
                run.violation = Some(v);
            }
            return run;
        }
    };
    for (i, b) in layers.bytes.iter().enumerate() {
        world.add_file(&layer_name(i), b.clone());
    }
    world.0.borrow_mut().keep_data = cfg.keep_data;
    if let Some(f) = &case.faults {
        world.0.borrow_mut().faults = f.clone();
    }
    run.model = Model::new(&case.layers, &layers.truths);
    run.truths = layers.truths.clone();
    run.stats.host_len_start = world.file_len(0);
    if let Err(mut v) = run_seq_inner(case, cfg, &mut run) {
        if run.cur_multi && qcow2_rs::cache::verif_evictions() > run.cur_evict0 {
            run.evicted_in_multi = true;
        }
        if run.evicted_in_multi {
            v.tags.push("hist:eviction_during_concurrency".into());
        }
        if cfg.track_growth {
            // what the failing operation itself was doing is not yet recorded: look at the top
            // tables' file offsets in the request log as well
            if run.growth.new_refblocks > 0 {
                v.tags.push("growth:refblock".into());
            }
            if run.growth.reftable_changed {
                v.tags.push("growth:reftable".into());
            }
            if run.growth.l1_changed {
                v.tags.push("growth:l1".into());
            }
        }
        run.violation = Some(v);
    }
    run.stats.host_len_end = world.file_len(0);
    run.stats.requests = world.log_len();
    if world.0.borrow().too_big && run.violation.is_some() {
        // a simulated file hit the harness cap: nothing this run reports is a verdict
        run.inconclusive = Some("simulated file exceeded the harness size cap".into());
        run.violation = None;
    }
    run
}

fn open_or_violation(world: &World, params: &DevParams, ro: bool, what: &str) -> Result<Dev, Violation> {
    match open_chain(world, 0, params, ro) {
        Ok(Ok(d)) => Ok(d),
        Ok(Err(e)) => Err(Violation::new(Rule::ApiErr, format!("{what}: open failed: {e}")).tag("open")),
        Err(p) => Err(Violation::new(Rule::Panic, format!("{what}: open panicked: {p}"))
            .tag("open")
            .tag(format!("panic:{}", panic_site(&p)))),
    }
}

/// request-log monitors evaluated over log[from..]
pub fn log_monitors(world: &World, from: usize, bs: usize, top_ro: bool, align: bool, stats: &mut SeqStats) -> Result<(), Violation> {
    let w = world.0.borrow();
    for r in &w.log[from..] {
        let modifying = matches!(r.kind, ReqKind::Write | ReqKind::Punch);
        if modifying && (r.file != 0 || top_ro) {
            return Err(Violation::new(
                Rule::RoWrite,
                format!(
                    "{:?} request (off={}, len={}) sent to read-only file {} ({})",
                    r.kind, r.off, r.len, r.file, w.files[r.file].name
                ),
            )
            .tag(if r.file != 0 { "backing" } else { "top_ro" }));
        }
        if align && r.kind != ReqKind::Fsync {
            let bad_off = r.off % bs as u64 != 0;
            let bad_len = r.len % bs != 0;
            let bad_buf = r.kind != ReqKind::Punch && r.buf_addr % bs != 0;
            if bad_off || bad_len || bad_buf {
                return Err(Violation::new(
                    Rule::Align,
                    format!(
                        "{:?} request off={} len={} buf={:#x} not aligned to block size {} (file {})",
                        r.kind, r.off, r.len, r.buf_addr, bs, r.file
                    ),
                )
                .tag(format!("req:{:?}", r.kind))
                .tag(if r.off == 0 && r.kind == ReqKind::Write { "header_write" } else { "other" })
                .tag(if bad_buf && !bad_off && !bad_len { "buf_only" } else { "off_len" }));
            }
        }
        if r.kind == ReqKind::Write && r.off == 0 && r.file == 0 {
            stats.header_writes += 1;
        }
    }
    Ok(())
}

fn run_seq_inner(case: &SeqCase, cfg: &SeqCfg, run: &mut SeqRun) -> Result<(), Violation> {
    let world = run.world.clone();
    let mut sched = Sched::new(case.sched.clone());
    let mut params = case.params.clone();
    let mut dev = open_or_violation(&world, &params, case.read_only, "initial open")?;
    let vsize = run.model.vsize;
    let cs = run.model.cs;
    let mut log_pos = 0usize;
    let mut salt = 0usize;
    let faults_on = case.faults.is_some();
    world.0.borrow_mut().faults_on = faults_on;

    let mut ops: Vec<Op> = case.ops.clone();
    if cfg.final_flush && !case.read_only && !matches!(ops.last(), Some(Op::Flush) | Some(Op::Reopen { .. })) {
        ops.push(Op::Flush);
    }

    let mut prev_flush_ok = false;
    let mut growth0: Option<(Option<u64>, usize, Option<u64>, usize, usize)> = None;
    if cfg.track_growth {
        if let Some((l1_off, l1, rt_off, rt)) = dev.verif_top_tables() {
            growth0 = Some((l1_off, l1.len(), rt_off, rt.len(), rt.iter().filter(|e| **e != 0).count()));
        }
    }
    for (i, op) in ops.iter().enumerate() {
        let bs = params.bs();
        let ev_start = world.now();
        // a multi-cluster call runs its per-cluster parts concurrently: evictions during it
        // fall under the known finding about evictions while several tasks run
        let multi = match op {
            Op::Write { off, len, .. } | Op::Read { off, len } => (*off as usize) / cs != (*off as usize + *len - 1) / cs,
            _ => false,
        };
        let evict0 = qcow2_rs::cache::verif_evictions();
        run.cur_multi = multi;
        run.cur_evict0 = evict0;
        let this_is_flush = matches!(op, Op::Flush);
        let this_is_fsync = matches!(op, Op::Fsync);
        match op {
            Op::Write { off, len, pat } => {
                let mut data = ABuf::new(*len, 0);
                crate::pat::fill(&mut data, *pat, *off);
                let first = *off as usize / cs;
                let last = (*off as usize + *len - 1) / cs;
                if first == last && *len < cs {
                    run.stats.sub_cluster_writes += 1;
                }
                if first != last {
                    run.stats.multi_cluster_ops += 1;
                    if *off as usize % cs != 0 || (*off as usize + *len) % cs != 0 {
                        run.stats.straddling_writes += 1;
                    }
                }
                let r = driven_violation(drive(&world, &mut sched, dev.write_at(&data, *off)), "write_at").map_err(|v| v.at(i).tag("write"))?;
                match r {
                    Ok(()) => {}
                    Err(e) => {
                        return Err(Violation::new(Rule::ApiErr, format!("write_at(off={off}, len={len}) failed: {e:?}"))
                            .at(i)
                            .tag("write"))
                    }
                }
                // classification before the model changes
                for g in first..=last {
                    let sourced = run.model.kind[g] == MKind::Compressed
                        || (run.model.kind[g] == MKind::Unalloc && run.model.has_backing);
                    let cstart = g * cs;
                    let cend = std::cmp::min(cstart + cs, vsize as usize);
                    let full = (*off as usize) <= cstart && (*off as usize + *len) >= cend;
                    if sourced && !full {
                        run.stats.cow_writes += 1;
                        if run.model.kind[g] == MKind::Compressed {
                            run.stats.cow_compressed += 1;
                        } else {
                            run.stats.cow_backing += 1;
                        }
                    }
                }
                if let Some(Some(t)) = run.truths.first() {
                    let cbits = cs.trailing_zeros();
                    for g in first..=last {
                        if run.model.kind[g] == MKind::Compressed {
                            if let (Some(o), Some(l)) = (t.host[g], t.comp_len[g]) {
                                for c in crate::spec::layout::compressed_host_clusters(o, l, cbits) {
                                    run.replaced_comp_hosts.insert(c);
                                }
                            }
                        }
                    }
                }
                run.model.write(*off, &data);
                run.stats.writes += 1;
            }
            Op::Read { off, len } => {
                let mut buf = ABuf::new(*len, POISON);
                let r = driven_violation(drive(&world, &mut sched, dev.read_at(&mut buf, *off)), "read_at").map_err(|v| v.at(i).tag("read"))?;
                match r {
                    Ok(n) if n == *len => {}
                    Ok(n) => {
                        let g = (*off as usize + n) / cs;
                        let mut v = Violation::new(
                            Rule::ReadLen,
                            format!("read_at(off={off}, len={len}) returned {n} instead of {len}"),
                        )
                        .at(i);
                        if g < run.model.clusters() {
                            v.cluster = Some(g);
                            v.tags = cluster_tags(&run.model, g);
                        }
                        return Err(v);
                    }
                    Err(e) => {
                        return Err(Violation::new(Rule::ApiErr, format!("read_at(off={off}, len={len}) failed: {e:?}"))
                            .at(i)
                            .tag("read"))
                    }
                }
                if let Some(v) = mismatch_violation(Rule::ReadData, &run.model, *off, &buf, &format!("read_at(off={off}, len={len})")) {
                    return Err(v.at(i));
                }
                let first = *off as usize / cs;
                let last = (*off as usize + *len - 1) / cs;
                if (first..=last).any(|g| run.model.touched[g]) {
                    run.stats.reads_of_modified += 1;
                }
                if (first..=last).any(|g| run.model.init_nonzero[g]) {
                    run.stats.reads_of_initial_nonzero += 1;
                }
                if (first..=last).any(|g| run.model.cow_done[g]) {
                    run.stats.reads_after_cow += 1;
                }
                if first != last {
                    run.stats.multi_cluster_ops += 1;
                }
                run.stats.reads += 1;
            }
            Op::Discard { off, len } => {
                if cfg.release_check {
                    for g in run.model.discard_range(*off, *len) {
                        if matches!(run.model.kind[g], MKind::Data | MKind::ZeroPrealloc) {
                            if let Driven::Done(Ok(m)) = drive(&world, &mut sched, dev.get_mapping((g * cs) as u64)) {
                                if let Some(o) = m.cluster_offset {
                                    if m.source == MappingSource::DataFile || m.source == MappingSource::Zero {
                                        run.discarded_hosts.insert(o >> cs.trailing_zeros());
                                    }
                                }
                            }
                        }
                    }
                }
                let r = driven_violation(drive(&world, &mut sched, dev.discard(*off, *len)), "discard").map_err(|v| v.at(i).tag("discard"))?;
                if let Err(e) = r {
                    return Err(Violation::new(Rule::DiscardErr, format!("discard(off={off}, len={len}) failed: {e:?}"))
                        .at(i)
                        .tag("discard"));
                }
                let freed = run.model.discard(*off, *len);
                run.stats.discard_freed += freed.len();
                if off % cs as u64 != 0 || len % cs as u64 != 0 || off.saturating_add(*len) >= vsize {
                    run.stats.discard_boundary += 1;
                }
                run.stats.discards += 1;
            }
            Op::Flush => {
                let r = driven_violation(drive(&world, &mut sched, dev.flush_meta()), "flush_meta").map_err(|v| v.at(i).tag("flush"))?;
                if let Err(e) = r {
                    return Err(Violation::new(Rule::ApiErr, format!("flush_meta failed: {e:?}")).at(i).tag("flush"));
                }
                run.stats.flushes += 1;
                after_flush(case, cfg, run, &world, &mut sched, &dev, &params, i, salt)?;
            }
            Op::Fsync => {
                let r = driven_violation(drive(&world, &mut sched, dev.fsync_range(0, vsize as usize)), "fsync_range").map_err(|v| v.at(i).tag("fsync"))?;
                if let Err(e) = r {
                    return Err(Violation::new(Rule::ApiErr, format!("fsync_range failed: {e:?}")).at(i).tag("fsync"));
                }
            }
            Op::Shrink => {
                let r = driven_violation(drive(&world, &mut sched, dev.shrink_caches()), "shrink_caches").map_err(|v| v.at(i).tag("shrink"))?;
                if let Err(e) = r {
                    return Err(Violation::new(Rule::ApiErr, format!("shrink_caches failed: {e:?}")).at(i).tag("shrink"));
                }
            }
            Op::Reopen { params: np } => {
                if !case.read_only {
                    let r = driven_violation(drive(&world, &mut sched, dev.flush_meta()), "flush_meta").map_err(|v| v.at(i).tag("flush"))?;
                    if let Err(e) = r {
                        return Err(Violation::new(Rule::ApiErr, format!("flush_meta (before reopen) failed: {e:?}"))
                            .at(i)
                            .tag("flush"));
                    }
                    run.stats.flushes += 1;
                    after_flush(case, cfg, run, &world, &mut sched, &dev, &params, i, salt)?;
                }
                // requests of the old device are judged by the old block size
                log_monitors(&world, log_pos, bs, case.read_only, cfg.align, &mut run.stats).map_err(|v| v.at(i))?;
                log_pos = world.log_len();
                drop(dev);
                params = np.clone();
                dev = open_or_violation(&world, &params, case.read_only, "reopen").map_err(|mut v| {
                    v.rule = if v.rule == Rule::ApiErr { Rule::ReopenOpen } else { v.rule };
                    v.at(i)
                })?;
                run.stats.reopens += 1;
            }
        }
        if multi && qcow2_rs::cache::verif_evictions() > evict0 {
            run.evicted_in_multi = true;
        }
        run.stats.ops_done = i + 1;
        run.op_events.push((ev_start, world.now()));
        if cfg.track_growth {
            if let Some((l1_off, l1, rt_off, rt)) = dev.verif_top_tables() {
                let cur = (l1_off, l1.len(), rt_off, rt.len(), rt.iter().filter(|e| **e != 0).count());
                match &growth0 {
                    None => growth0 = Some(cur),
                    Some(g0) => {
                        run.growth.new_refblocks = cur.4.saturating_sub(g0.4);
                        run.growth.reftable_changed = cur.2 != g0.2 || cur.3 != g0.3;
                        run.growth.l1_changed = cur.0 != g0.0 || cur.1 != g0.1;
                    }
                }
            }
        }
        if cfg.record_syncs && this_is_fsync && prev_flush_ok {
            run.sync_points.push((world.now(), run.model.disk.clone()));
        }
        prev_flush_ok = this_is_flush;
        run.final_params = Some(params.clone());
        // request-log monitors
        let bs = params.bs();
        log_monitors(&world, log_pos, bs, case.read_only, cfg.align, &mut run.stats).map_err(|v| v.at(i))?;
        {
            let w = world.0.borrow();
            for r in &w.log[log_pos..] {
                if bs > 512 && r.kind != ReqKind::Fsync && r.len < cs {
                    run.stats.meta_requests_bs_gt_512 += 1;
                }
            }
        }
        log_pos = world.log_len();
        let (l2c, rbc) = dev.verif_cache_counts();
        let _ = (l2c, rbc);
        // frame condition
        if cfg.sweep && op.modifies() {
            salt += 1;
            if (vsize as usize) <= cfg.sweep_limit || i % 8 == 7 || i + 1 == ops.len() {
                let got = sweep(&world, &mut sched, &dev, vsize, params.bs(), cs, salt).map_err(|v| v.at(i).tag(format!("after:{}", op.kind())))?;
                let readable = got.len() - got.len() % params.bs();
                if let Some(v) = mismatch_violation(Rule::Frame, &run.model, 0, &got[..readable], &format!("sweep after {}", op.kind())) {
                    return Err(v.at(i).tag(format!("after:{}", op.kind())));
                }
                log_pos = world.log_len();
            }
        }
        if cfg.ownership && !case.read_only {
            let g = (vsize as usize).div_ceil(cs) as u64;
            crate::props::c08::ownership_check(&world, &dev, g).map_err(|v| v.at(i))?;
            run.stats.ownership_checks += 1;
            log_pos = world.log_len();
        }
        if cfg.need_flush_check && !case.read_only && !dev.need_flush_meta() {
            run.stats.need_flush_false_samples += 1;
            compare_reopen(case, run, &world, &dev, &params, &params, i, salt, Rule::NeedFlush, true)?;
        }
    }
    run.stats.sched_branch_points = sched.branch_points;
    run.stats.sched_nondefault = sched.nondefault;
    // final mapping check
    if cfg.mapping_check {
        mapping_check(run, &world, &mut sched, &dev)?;
    }
    drop(dev);
    Ok(())
}

fn mapping_check(run: &mut SeqRun, world: &World, sched: &mut Sched, dev: &Dev) -> Result<(), Violation> {
    let cs = run.model.cs;
    for g in 0..run.model.clusters() {
        let m = driven_violation(drive(world, sched, dev.get_mapping((g * cs) as u64)), "get_mapping")?;
        let m = match m {
            Ok(m) => m,
            Err(e) => return Err(Violation::new(Rule::ApiErr, format!("get_mapping(cluster {g}) failed: {e:?}")).tag("get_mapping")),
        };
        let ok = match run.model.kind[g] {
            MKind::Data => m.source == MappingSource::DataFile,
            MKind::ZeroFlag | MKind::ZeroPrealloc => m.source == MappingSource::Zero,
            MKind::Compressed => m.source == MappingSource::Compressed,
            MKind::Unalloc => {
                if run.model.has_backing {
                    m.source == MappingSource::Backing
                } else {
                    m.source == MappingSource::Unallocated
                }
            }
            // content is checked by reads; any zero-reading representation is fine
            MKind::Discarded => true,
        };
        if !ok {
            let mut v = Violation::new(
                Rule::MappingKind,
                format!("get_mapping(cluster {g}) = {:?}, model kind {:?}", m.source, run.model.kind[g]),
            );
            v.cluster = Some(g);
            v.tags = cluster_tags(&run.model, g);
            return Err(v);
        }
    }
    Ok(())
}

/// Copy all file bytes into a fresh world, open a device with `np`, sweep, compare with the
/// model (and optionally run the strict checker).
#[allow(clippy::too_many_arguments)]
fn compare_reopen(
    case: &SeqCase,
    run: &mut SeqRun,
    world: &World,
    _dev: &Dev,
    _cur: &DevParams,
    np: &DevParams,
    op: usize,
    salt: usize,
    rule: Rule,
    strict: bool,
) -> Result<(), Violation> {
    let w2 = World::new();
    let n = world.0.borrow().files.len();
    for id in 0..n {
        w2.add_file(&layer_name(id), world.bytes(id));
    }
    if strict {
        let rep = checker::check(&w2.bytes(0), Mode::Strict);
        if !rep.ok(Mode::Strict) {
            return Err(Violation::new(rule, format!("need_flush_meta()==false but file is not a valid image: {}", rep.summary(Mode::Strict))).at(op));
        }
    }
    let mut s2 = Sched::new(None);
    let d2 = match open_chain(&w2, 0, np, true) {
        Ok(Ok(d)) => d,
        Ok(Err(e)) => return Err(Violation::new(Rule::ReopenOpen, format!("reopen with {np:?} failed: {e}")).at(op)),
        Err(p) => {
            return Err(Violation::new(Rule::Panic, format!("reopen with {np:?} panicked: {p}"))
                .at(op)
                .tag("open")
                .tag(format!("panic:{}", panic_site(&p))))
        }
    };
    let _ = case;
    let got = sweep(&w2, &mut s2, &d2, run.model.vsize, np.bs(), run.model.cs, salt).map_err(|mut v| {
        v.tags.push("reopened".into());
        v.at(op)
    })?;
    let readable = got.len() - got.len() % np.bs();
    if let Some(v) = mismatch_violation(rule, &run.model, 0, &got[..readable], &format!("sweep of reopened device ({np:?})")) {
        return Err(v.at(op).tag("reopened"));
    }
    run.stats.reopen_compares += 1;
    Ok(())
}

#[allow(clippy::too_many_arguments)]
fn after_flush(
    case: &SeqCase,
    cfg: &SeqCfg,
    run: &mut SeqRun,
    world: &World,
    _sched: &mut Sched,
    dev: &Dev,
    params: &DevParams,
    op: usize,
    salt: usize,
) -> Result<(), Violation> {
    if cfg.check_on_flush {
        let bytes = world.bytes(0);
        let rep = checker::check(&bytes, Mode::Strict);
        run.stats.checker_runs += 1;
        run.stats.new_l2_tables = rep.l2_tables as usize;
        run.stats.new_refblocks = rep.refblocks as usize;
        if !rep.corrupt.is_empty() {
            return Err(Violation::new(Rule::CheckCorrupt, format!("after flush_meta: {}", rep.summary(Mode::Strict))).at(op));
        }
        let tag_of = |c: u64, run: &SeqRun| -> Vec<String> {
            let mut t = vec![];
            if run.replaced_comp_hosts.contains(&c) {
                t.push("replaced_compressed_host".to_string());
            }
            if run.discarded_hosts.contains(&c) {
                t.push("discarded_host".to_string());
            }
            t
        };
        if let Some(u) = rep.undercounted.first() {
            let mut v = Violation::new(Rule::CheckUnder, format!("after flush_meta: {}", rep.summary(Mode::Strict))).at(op);
            v.tags = tag_of(u.0, run);
            return Err(v);
        }
        if let Some(u) = rep.leaked.first() {
            let mut v = Violation::new(Rule::CheckLeak, format!("after flush_meta: {}", rep.summary(Mode::Strict))).at(op);
            v.tags = tag_of(u.0, run);
            return Err(v);
        }
        // a discarded host cluster that is referenced again has been re-allocated
        run.discarded_hosts.retain(|c| !rep.refs.contains_key(c));
    }
    if cfg.reopen_on_flush {
        compare_reopen(case, run, world, dev, params, params, op, salt, Rule::Reopen, false)?;
        for np in cfg.reopen_params.iter().chain(case.reopen_params.iter()) {
            compare_reopen(case, run, world, dev, params, np, op, salt + 1, Rule::Reopen, false)?;
        }
    }
    Ok(())
}
