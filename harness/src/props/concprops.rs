//! C06, C07, C18: properties over concurrent histories (deterministic executor).
use super::seqdom::*;
use crate::conc::*;
use crate::engine::{Rule, SeqCfg, Violation};
use crate::gen::{raw_strategy, Profile, RawCase};
use crate::runner::*;
use proptest::strategy::{BoxedStrategy, Strategy};
use serde_json::Value;

pub struct ConcDomain {
    pub name: &'static str,
    pub quick: u64,
    pub thorough: u64,
    pub profile: fn() -> ConcProfile,
    pub cfg: fn() -> ConcCfg,
    pub owns: fn(&Violation) -> bool,
    pub nontrivial: fn(&ConcRun, &ConcCase) -> bool,
}

fn conc_classes(r: &ConcRun, c: &ConcCase) -> Vec<String> {
    let st = &r.stats;
    let mut v = Vec::new();
    let mut add = |b: bool, s: &str| {
        if b {
            v.push(s.to_string());
        }
    };
    add(st.overlapping_pairs > 0, "calls_overlapped_in_time");
    add(st.overlap_same_cluster > 0, "overlap_same_cluster");
    add(st.overlap_same_block > 0, "overlap_same_block");
    add(st.discard_vs_write > 0, "discard_racing_write");
    add(st.flush_concurrent_with_write > 0, "flush_concurrent_with_write");
    add(st.cache_small, "cache_evictable");
    add(st.batches_with_eviction > 0, "eviction_during_concurrent_batch");
    add(st.nondefault > 0, "non_default_schedule");
    add(c.layers.len() > 1, "backing_chain");
    add(st.need_flush_false_samples > 0, "need_flush_false_sampled");
    add(st.max_ops_per_block >= 3, "block_with_3plus_ops");
    v.push(format!("cluster_bits:{}", c.layers[0].cluster_bits()));
    v.push(format!("batches:{}", c.batches.len()));
    v
}

impl Domain for ConcDomain {
    fn name(&self) -> &'static str {
        self.name
    }
    fn cases(&self, tier: Tier) -> u64 {
        match tier {
            Tier::Quick => self.quick,
            Tier::Thorough => self.thorough,
        }
    }
    fn strategy(&self, _tier: Tier) -> BoxedStrategy<RawCase> {
        raw_strategy(16, 40, 400, 0).boxed()
    }
    fn decode(&self, raw: &RawCase, excl: &Exclusions) -> Value {
        let _ = excl;
        let c = decode_conc(raw, &(self.profile)());
        serde_json::to_value(c).unwrap()
    }
    fn run(&self, case: &Value, _excl: &Exclusions) -> CaseResult {
        let case: ConcCase = match serde_json::from_value(case.clone()) {
            Ok(c) => c,
            Err(e) => {
                return CaseResult {
                    verdict: Verdict::Inconclusive(format!("bad case: {e}")),
                    nontrivial: false,
                    classes: vec![],
                    excluded: vec![],
            counters: vec![],
                }
            }
        };
        let run = run_conc(&case, &(self.cfg)());
        let verdict = if let Some(m) = &run.inconclusive {
            Verdict::Inconclusive(m.clone())
        } else {
            match &run.violation {
                None => Verdict::Pass,
                Some(v) if (self.owns)(v) => Verdict::Violation(v.clone()),
                Some(v) => Verdict::Foreign(v.clone()),
            }
        };
        CaseResult {
            verdict,
            nontrivial: (self.nontrivial)(&run, &case),
            classes: conc_classes(&run, &case),
            excluded: case.excluded.clone(),
            counters: vec![],
        }
    }
}

fn conc_assumptions() -> Vec<String> {
    vec![
        "the library's concurrency model is single-threaded cooperative: tasks interleave only at await points, all of which the executor owns (lock hand-over, backend request completion)".into(),
        "schedules are sampled (uniform, default-biased), not enumerated".into(),
        "SimFile semantics (effects at completion, any completion order) over-approximate a real backend".into(),
    ]
}

// ------------------------------------------------------------------------------------ C06
pub struct C06;

impl Prop for C06 {
    fn id(&self) -> &'static str {
        "C06"
    }
    fn level(&self) -> &'static str {
        "exploration"
    }
    fn rule_text(&self) -> String {
        "Generated: batches of 2..6 tasks, each issuing 1..3 calls (read/write/discard/flush/shrink) on ranges concentrated on \
         a small arena of clusters (same cluster, overlapping, slice boundaries, whole-cluster discards racing writes), cache sizes \
         incl. the 2-slice minimum, under generated schedules that decide every task poll and every request completion. Oracle: \
         per 512-byte block a Wing-Gong linearizability search over the batch's writes (unique values), discards (zero when the \
         cluster certainly has its own allocation, {zero, unchanged} when a racing write decides) and reads, plus the sweep at \
         the quiescent point as a final read; untouched blocks must not change; after the last batch flush + reopen from copied \
         bytes must equal the final sweep. Non-trivial: at least two calls of different tasks overlapped in time AND touched the \
         same cluster. Distinct = distinct decoded case."
            .into()
    }
    fn assumptions(&self) -> Vec<String> {
        conc_assumptions()
    }
    fn domains(&self) -> Vec<Box<dyn Domain>> {
        vec![Box::new(ConcDomain {
            name: "conc",
            quick: 20_000,
            thorough: 1_000_000,
            profile: ConcProfile::default,
            cfg: ConcCfg::default,
            owns: |v| match v.rule {
                Rule::ReadData | Rule::Frame => true,
                Rule::Reopen => v.has_tag("concurrent"),
                _ => false,
            },
            nontrivial: |r, _| r.stats.overlap_same_cluster > 0 && r.stats.batches_done > 0,
        })]
    }
}

// ------------------------------------------------------------------------------------ C07
pub struct C07;

fn progress_rule(v: &Violation) -> bool {
    matches!(v.rule, Rule::Deadlock | Rule::Budget | Rule::ApiErr | Rule::DiscardErr | Rule::Panic | Rule::ReopenOpen)
}

impl Prop for C07 {
    fn id(&self) -> &'static str {
        "C07"
    }
    fn level(&self) -> &'static str {
        "exploration"
    }
    fn rule_text(&self) -> String {
        "Generated: C06's concurrent batches (domain conc) and C01's sequential histories (domain seq), no fault injection, \
         unlimited host space, geometries far from format limits. Oracle: (i) the executor's exact deadlock detection (unfinished \
         tasks, nothing ready, nothing in flight); (ii) step / cache-lookup / request budgets two or more orders of magnitude \
         above the longest terminating call (livelock suspect); (iii) any Err or panic from a call with valid arguments. \
         Non-trivial: (conc) at least two calls overlapped in time or the cache holds at most 3 slices; (seq) at least 3 \
         operations incl. a write. Distinct = distinct decoded case."
            .into()
    }
    fn assumptions(&self) -> Vec<String> {
        let mut a = conc_assumptions();
        a.push("liveness is only refuted: 'eventually' is approximated by the budgets".into());
        a
    }
    fn domains(&self) -> Vec<Box<dyn Domain>> {
        vec![
            Box::new(ConcDomain {
                name: "conc",
                quick: 30_000,
                thorough: 1_500_000,
                profile: || ConcProfile {
                    small_cache_pct: 70,
                    ..ConcProfile::default()
                },
                cfg: || ConcCfg {
                    linearizability: false,
                    final_reopen: true,
                    ..ConcCfg::default()
                },
                owns: progress_rule,
                nontrivial: |r, _| r.stats.overlapping_pairs > 0 || r.stats.cache_small,
            }),
            Box::new(SeqDomain {
                name: "seq",
                quick: 10_000,
                thorough: 300_000,
                profile: Profile::default,
                cfg: || SeqCfg {
                    sweep: false,
                    check_on_flush: false,
                    reopen_on_flush: false,
                    mapping_check: false,
                    align: false,
                    final_flush: true,
                    release_check: false,
                    ..SeqCfg::default()
                },
                owns: progress_rule,
                nontrivial: |r, _| r.stats.ops_done >= 3 && r.stats.writes > 0,
                tweak: no_tweak,
                case_tags: no_tags,
                extra_classes: no_classes,
                max_sched: 200,
                max_extra: 0,
            }),
        ]
    }
}

// ------------------------------------------------------------------------------------ C18
pub struct C18;

impl Prop for C18 {
    fn id(&self) -> &'static str {
        "C18"
    }
    fn level(&self) -> &'static str {
        "exploration"
    }
    fn rule_text(&self) -> String {
        "Generated: concurrent batches mixing writes/discards with flush_meta and shrink_caches tasks (domain conc) and \
         sequential histories (domain seq). Oracle: at every quiescent point (all tasks joined / after every call) \
         need_flush_meta() is sampled; whenever it is false the file bytes are copied, judged by the independent strict checker \
         and reopened: the sweep must equal the live device's content. Non-trivial: (conc) a metadata-dirtying call overlapped a \
         flush_meta/shrink_caches in time and need_flush_meta()==false was sampled at least once; (seq) need_flush_meta()==false \
         was sampled after at least one write. Distinct = distinct decoded case."
            .into()
    }
    fn assumptions(&self) -> Vec<String> {
        conc_assumptions()
    }
    fn domains(&self) -> Vec<Box<dyn Domain>> {
        vec![
            Box::new(ConcDomain {
                name: "conc",
                quick: 20_000,
                thorough: 1_000_000,
                profile: || ConcProfile {
                    op_weights: [45, 8, 12, 28, 7],
                    ..ConcProfile::default()
                },
                cfg: || ConcCfg {
                    linearizability: false,
                    final_reopen: false,
                    need_flush_check: true,
                    ..ConcCfg::default()
                },
                owns: |v| v.rule == Rule::NeedFlush,
                nontrivial: |r, _| r.stats.dirtying_overlapping_flush > 0 && r.stats.need_flush_false_samples > 0,
            }),
            Box::new(SeqDomain {
                name: "seq",
                quick: 3_000,
                thorough: 100_000,
                profile: || Profile {
                    op_weights: [40, 10, 12, 22, 2, 8, 6],
                    max_clusters: 24,
                    ..Profile::default()
                },
                cfg: || SeqCfg {
                    sweep: false,
                    check_on_flush: false,
                    reopen_on_flush: false,
                    mapping_check: false,
                    align: false,
                    final_flush: false,
                    release_check: false,
                    need_flush_check: true,
                    ..SeqCfg::default()
                },
                owns: |v| v.rule == Rule::NeedFlush,
                nontrivial: |r, _| r.stats.need_flush_false_samples > 0 && r.stats.writes > 0,
                tweak: no_tweak,
                case_tags: no_tags,
                extra_classes: no_classes,
                max_sched: 200,
                max_extra: 0,
            }),
        ]
    }
}
