//! C19 I/O backends are interchangeable and match the host-file model
use crate::case::*;
use crate::engine::*;
use crate::exec::guarded;
use crate::gen::{self, raw_strategy, weighted1, Profile, RawCase, Src};
use crate::model::Model;
use crate::pat::Pat;
use crate::runner::*;
use crate::sim::{ABuf, World};
use proptest::strategy::{BoxedStrategy, Strategy};
use qcow2_rs::dev::Qcow2Dev;
use qcow2_rs::ops::Qcow2IoOps;
use serde::{Deserialize, Serialize};
use serde_json::Value;
use std::cell::RefCell;
use std::path::{Path, PathBuf};

pub struct C19;

fn own(v: Violation) -> Violation {
    v.tag("c19")
}

fn tmp_dir() -> PathBuf {
    thread_local! {
        static DIR: RefCell<Option<PathBuf>> = const { RefCell::new(None) };
    }
    DIR.with(|d| {
        let mut d = d.borrow_mut();
        if d.is_none() {
            let base = crate::runner::verif_root().join("target").join("tmp");
            let p = base.join(format!("c19-{}-{:?}", std::process::id(), std::thread::current().id()).replace(['(', ')'], ""));
            let _ = std::fs::create_dir_all(&p);
            *d = Some(p);
        }
        d.clone().unwrap()
    })
}

fn fnv(b: &[u8]) -> u64 {
    let mut h = 0xcbf2_9ce4_8422_2325u64;
    for x in b {
        h ^= *x as u64;
        h = h.wrapping_mul(0x100_0000_01b3);
    }
    h
}

// ---------------------------------------------------------------------------------------
// G1: raw request sequences
// ---------------------------------------------------------------------------------------

#[derive(Clone, Debug, Serialize, Deserialize, PartialEq)]
pub enum BReq {
    Read { off: u64, len: usize },
    Write { off: u64, len: usize, seed: u8 },
    Punch { off: u64, len: usize },
    Sync,
}

#[derive(Clone, Debug, Serialize, Deserialize)]
pub struct BackendCase {
    pub initial_len: usize,
    pub reqs: Vec<BReq>,
}

#[derive(Clone, Debug, PartialEq)]
enum BRes {
    Read(usize, u64),
    Ok,
    Err,
}

fn payload(len: usize, seed: u8) -> Vec<u8> {
    (0..len).map(|i| (i as u32).wrapping_mul(2654435761).wrapping_add(seed as u32 * 97) as u8 | 1).collect()
}

async fn run_reqs<T: Qcow2IoOps>(io: &T, reqs: &[BReq]) -> Vec<BRes> {
    let mut out = Vec::new();
    for r in reqs {
        match r {
            BReq::Read { off, len } => {
                let mut buf = ABuf::new(*len, 0xA5);
                match io.read_to(*off, &mut buf).await {
                    Ok(n) => out.push(BRes::Read(n, fnv(&buf[..std::cmp::min(n, *len)]))),
                    Err(_) => out.push(BRes::Err),
                }
            }
            BReq::Write { off, len, seed } => {
                let data = ABuf::from_slice(&payload(*len, *seed));
                out.push(if io.write_from(*off, &data).await.is_ok() { BRes::Ok } else { BRes::Err });
            }
            BReq::Punch { off, len } => {
                out.push(if io.fallocate(*off, *len, qcow2_rs::ops::Qcow2OpsFlags::FALLOCATE_ZERO_RANGE).await.is_ok() { BRes::Ok } else { BRes::Err });
            }
            BReq::Sync => out.push(if io.fsync(0, usize::MAX, 0).await.is_ok() { BRes::Ok } else { BRes::Err }),
        }
    }
    // the file is inspected through another handle afterwards
    let _ = io.fsync(0, usize::MAX, 0).await;
    out
}

fn initial_bytes(n: usize) -> Vec<u8> {
    (0..n).map(|i| ((i * 31 + 7) % 251) as u8 | 0x40).collect()
}

thread_local! {
    static RT: tokio::runtime::Runtime = tokio::runtime::Builder::new_current_thread().enable_all().build().unwrap();
}

fn run_backend_case(c: &BackendCase) -> Result<bool, Violation> {
    let dir = tmp_dir();
    let init = initial_bytes(c.initial_len);
    // reference: the simulated file
    let world = World::new();
    let id = world.add_file("f", init.clone());
    let sim = world.open(id);
    let want = crate::exec::block_on_immediate(&world, run_reqs(&sim, &c.reqs)).ok().flatten().ok_or_else(|| Violation::new(Rule::Setup, "sim run failed"))?;
    let want_bytes = world.bytes(id);
    let mut touched_eof = false;
    let mut flen = c.initial_len as u64;
    for r in &c.reqs {
        match r {
            BReq::Read { off, len } => {
                if off + *len as u64 > flen {
                    touched_eof = true;
                }
            }
            BReq::Write { off, len, .. } => {
                if off + *len as u64 > flen {
                    touched_eof = true;
                    flen = off + *len as u64;
                }
            }
            BReq::Punch { off, len } => {
                if off + *len as u64 >= flen || *off < flen {
                    touched_eof = touched_eof || off + *len as u64 >= flen;
                }
            }
            BReq::Sync => {}
        }
    }
    for backend in ["tokio", "sync", "uring"] {
        let path = dir.join(format!("raw-{backend}.bin"));
        std::fs::write(&path, &init).map_err(|e| Violation::new(Rule::Setup, format!("cannot create temp file: {e}")))?;
        let reqs = c.reqs.clone();
        let p2 = path.clone();
        let got: Result<Vec<BRes>, String> = match backend {
            "tokio" => guarded(|| {
                RT.with(|rt| {
                    rt.block_on(async {
                        let io = qcow2_rs::tokio_io::Qcow2IoTokio::new(&p2, false, false).await;
                        run_reqs(&io, &reqs).await
                    })
                })
            }),
            "sync" => guarded(|| {
                let io = qcow2_rs::sync_io::Qcow2IoSync::new(&p2, false, false);
                futures::executor::block_on(run_reqs(&io, &reqs))
            }),
            _ => guarded(|| {
                tokio_uring::start(async {
                    let io = qcow2_rs::uring::Qcow2IoUring::new(&p2, false, false).await;
                    run_reqs(&io, &reqs).await
                })
            }),
        };
        let got = match got {
            Ok(g) => g,
            Err(p) => {
                let _ = std::fs::remove_file(&path);
                return Err(own(Violation::new(Rule::Panic, format!("{backend} backend panicked on a request sequence: {p}")).tag(format!("backend:{backend}")).tag(format!("panic:{}", panic_site(&p)))));
            }
        };
        let bytes = std::fs::read(&path).unwrap_or_default();
        let _ = std::fs::remove_file(&path);
        for (i, (g, w)) in got.iter().zip(want.iter()).enumerate() {
            if g != w {
                return Err(own(
                    Violation::new(
                        Rule::Validation,
                        format!("{backend} backend: request #{i} {:?} returned {:?}, the host-file model (and the other backends) return {:?}", c.reqs[i], g, w),
                    )
                    .at(i)
                    .tag(format!("backend:{backend}")),
                ));
            }
        }
        if bytes.len() != want_bytes.len() {
            return Err(own(Violation::new(Rule::Validation, format!("{backend} backend left a file of {} bytes, the model {} bytes", bytes.len(), want_bytes.len())).tag(format!("backend:{backend}"))));
        }
        if bytes != want_bytes {
            let pos = bytes.iter().zip(want_bytes.iter()).position(|(a, b)| a != b).unwrap_or(0);
            return Err(own(Violation::new(Rule::Validation, format!("{backend} backend: file content differs from the model at byte {pos}")).tag(format!("backend:{backend}"))));
        }
    }
    Ok(touched_eof)
}

fn gen_backend(raw: &RawCase) -> BackendCase {
    let mut s = Src::new(&raw.head);
    let initial_len = match s.weighted(&[20, 40, 30, 10]) {
        0 => 0,
        1 => 512 * (1 + s.pick(64)),
        2 => 4096 * (1 + s.pick(64)) + s.pick(3) * 100,
        _ => (3 << 20) + s.pick(1 << 20),
    };
    let mut flen = initial_len as u64;
    let mut reqs = Vec::new();
    for r in raw.ops.iter().take(16) {
        let near = |v: u16, flen: u64| -> u64 {
            match weighted1(v, &[20, 20, 15, 15, 15, 15]) {
                0 => 0,
                1 => flen,
                2 => flen.saturating_sub(512),
                3 => flen.saturating_sub(1),
                4 => flen + 4096,
                _ => (flen * (v as u64 % 97)) / 97,
            }
        };
        let len_of = |v: u16| -> usize {
            match weighted1(v, &[25, 25, 20, 15, 10, 5]) {
                0 => 512,
                1 => 4096,
                2 => 1 + (v as usize % 9000),
                3 => 65536,
                4 => (2 << 20) + 4096 * (v as usize % 5),
                _ => (5 << 20) + (v as usize % 4096),
            }
        };
        let q = match weighted1(r[0], &[35, 35, 20, 10]) {
            0 => BReq::Read { off: near(r[1], flen), len: len_of(r[2]) },
            1 => {
                let (off, len) = (near(r[1], flen), len_of(r[2]));
                flen = std::cmp::max(flen, off + len as u64);
                BReq::Write { off, len, seed: r[3] as u8 }
            }
            2 => BReq::Punch { off: near(r[1], flen), len: len_of(r[2]) },
            _ => BReq::Sync,
        };
        reqs.push(q);
    }
    BackendCase { initial_len, reqs }
}

struct RawDomain;

impl Domain for RawDomain {
    fn name(&self) -> &'static str {
        "requests"
    }
    fn cases(&self, tier: Tier) -> u64 {
        match tier {
            Tier::Quick => 600,
            Tier::Thorough => 20_000,
        }
    }
    fn strategy(&self, _tier: Tier) -> BoxedStrategy<RawCase> {
        raw_strategy(0, 16, 0, 0).boxed()
    }
    fn decode(&self, raw: &RawCase, _excl: &Exclusions) -> Value {
        serde_json::to_value(gen_backend(raw)).unwrap()
    }
    fn run(&self, case: &Value, _excl: &Exclusions) -> CaseResult {
        let c: BackendCase = serde_json::from_value(case.clone()).unwrap();
        let (verdict, nt) = match run_backend_case(&c) {
            Ok(nt) => (Verdict::Pass, nt),
            Err(v) => {
                if v.has_tag("c19") {
                    (Verdict::Violation(v), false)
                } else {
                    (Verdict::Inconclusive(v.msg), false)
                }
            }
        };
        let mut classes = vec![];
        if c.reqs.iter().any(|r| matches!(r, BReq::Read { len, .. } | BReq::Write { len, .. } if *len > (2 << 20))) {
            classes.push("request_larger_than_2MiB".into());
        }
        if c.reqs.iter().any(|r| matches!(r, BReq::Punch { .. })) {
            classes.push("punch".into());
        }
        if c.initial_len == 0 {
            classes.push("empty_file".into());
        }
        CaseResult {
            verdict,
            nontrivial: nt,
            classes,
            excluded: vec![],
            counters: vec![("backend_runs".into(), 3)],
        }
    }
}

// ---------------------------------------------------------------------------------------
// G2: guest-level histories on every backend
// ---------------------------------------------------------------------------------------

#[derive(Clone, Debug, Serialize, Deserialize)]
pub struct GuestCase {
    pub layer: LayerSpec,
    pub params: DevParams,
    pub ops: Vec<Op>,
}

async fn run_guest<T: Qcow2IoOps>(dev: &Qcow2Dev<T>, ops: &[Op], model: &mut Model, bs: usize) -> Result<u64, String> {
    for (i, op) in ops.iter().enumerate() {
        match op {
            Op::Write { off, len, pat } => {
                let mut data = ABuf::new(*len, 0);
                crate::pat::fill(&mut data, *pat, *off);
                dev.write_at(&data, *off).await.map_err(|e| format!("op {i} write_at failed: {e:?}"))?;
                model.write(*off, &data);
            }
            Op::Read { off, len } => {
                let mut buf = ABuf::new(*len, crate::pat::POISON);
                let n = dev.read_at(&mut buf, *off).await.map_err(|e| format!("op {i} read_at failed: {e:?}"))?;
                if n != *len {
                    return Err(format!("op {i} read_at(off={off}, len={len}) returned {n}"));
                }
                if buf[..] != model.disk[*off as usize..*off as usize + *len] {
                    return Err(format!("op {i} read_at(off={off}, len={len}) returned data that differs from the reference disk"));
                }
            }
            Op::Discard { off, len } => {
                dev.discard(*off, *len).await.map_err(|e| format!("op {i} discard failed: {e:?}"))?;
                model.discard(*off, *len);
            }
            Op::Shrink => dev.shrink_caches().await.map_err(|e| format!("op {i} shrink failed: {e:?}"))?,
            Op::Fsync => dev.fsync_range(0, 0).await.map_err(|e| format!("op {i} fsync failed: {e:?}"))?,
            _ => dev.flush_meta().await.map_err(|e| format!("op {i} flush failed: {e:?}"))?,
        }
    }
    dev.flush_meta().await.map_err(|e| format!("final flush failed: {e:?}"))?;
    // sweep
    let vsize = model.vsize as usize;
    let mut all = vec![0u8; vsize];
    let chunk = std::cmp::max(bs, 64 << 10);
    let mut off = 0usize;
    while off < vsize {
        let n = std::cmp::min(chunk, vsize - off);
        let mut buf = ABuf::new(n, crate::pat::POISON);
        let k = dev.read_at(&mut buf, off as u64).await.map_err(|e| format!("sweep read failed: {e:?}"))?;
        if k != n {
            return Err(format!("sweep read_at(off={off}, len={n}) returned {k}"));
        }
        all[off..off + n].copy_from_slice(&buf);
        off += n;
    }
    if all != model.disk {
        let pos = all.iter().zip(model.disk.iter()).position(|(a, b)| a != b).unwrap_or(0) / 512 * 512;
        return Err(format!(
            "final sweep: guest offset {pos} holds {}, reference disk has {}",
            crate::pat::describe(&all[pos..pos + 512]),
            crate::pat::describe(&model.disk[pos..pos + 512])
        ));
    }
    Ok(fnv(&all))
}

fn run_guest_case(c: &GuestCase) -> Result<bool, Violation> {
    let layers = build_layers(std::slice::from_ref(&c.layer)).map_err(|e| Violation::new(Rule::Setup, e.msg))?;
    let dir = tmp_dir();
    let bs = c.params.bs();
    let lp = c.params.to_lib(false);
    let mut hashes = Vec::new();
    let mut punched = false;
    for backend in ["sim", "sim-punch-unsupported", "tokio", "sync", "uring"] {
        let mut model = Model::new(std::slice::from_ref(&c.layer), &layers.truths);
        let ops = c.ops.clone();
        let res: Result<Result<u64, String>, String> = if backend.starts_with("sim") {
            let world = World::new();
            world.add_file(&layer_name(0), layers.bytes[0].clone());
            if backend == "sim-punch-unsupported" {
                let mut w = world.0.borrow_mut();
                w.faults.punch_unsupported = true;
                w.faults_on = true;
            }
            match open_chain(&world, 0, &c.params, false) {
                Ok(Ok(dev)) => {
                    let r = crate::exec::block_on_immediate(&world, run_guest(&dev, &ops, &mut model, bs));
                    punched = punched || world.0.borrow().log.iter().any(|r| r.kind == crate::sim::ReqKind::Punch && r.result_len > 0);
                    match r {
                        Ok(Some(x)) => Ok(x),
                        Ok(None) => Ok(Err("blocked forever".into())),
                        Err(p) => Err(p),
                    }
                }
                Ok(Err(e)) => Ok(Err(format!("open failed: {e}"))),
                Err(p) => Err(p),
            }
        } else {
            let path: PathBuf = dir.join(format!("guest-{backend}.qcow2"));
            std::fs::write(&path, &layers.bytes[0]).map_err(|e| Violation::new(Rule::Setup, format!("temp file: {e}")))?;
            let p: &Path = &path;
            let r = match backend {
                "tokio" => guarded(|| {
                    RT.with(|rt| {
                        rt.block_on(async {
                            let dev = qcow2_rs::utils::qcow2_setup_dev_tokio(p, &lp).await.map_err(|e| format!("open failed: {e:?}"))?;
                            run_guest(&dev, &ops, &mut model, bs).await
                        })
                    })
                }),
                "sync" => guarded(|| {
                    let dev = qcow2_rs::utils::qcow2_setup_dev_sync(p, &lp).map_err(|e| format!("open failed: {e:?}"))?;
                    futures::executor::block_on(async {
                        dev.qcow2_prep_io().await.map_err(|e| format!("prep failed: {e:?}"))?;
                        run_guest(&dev, &ops, &mut model, bs).await
                    })
                }),
                _ => guarded(|| {
                    tokio_uring::start(async {
                        let dev = qcow2_rs::utils::qcow2_setup_dev_uring(p, &lp).await.map_err(|e| format!("open failed: {e:?}"))?;
                        run_guest(&dev, &ops, &mut model, bs).await
                    })
                }),
            };
            let _ = std::fs::remove_file(&path);
            r
        };
        match res {
            Err(p) => return Err(own(Violation::new(Rule::Panic, format!("history on the {backend} backend panicked: {p}")).tag(format!("backend:{backend}")).tag(format!("panic:{}", panic_site(&p))))),
            Ok(Err(m)) => {
                let v = Violation::new(Rule::ReadData, format!("history on the {backend} backend: {m}")).tag(format!("backend:{backend}"));
                // a failure on the plain simulated backend belongs to C01/C07, not to this property
                return Err(if backend == "sim" { v } else { own(v) });
            }
            Ok(Ok(h)) => hashes.push((backend, h)),
        }
    }
    if let Some((b, h)) = hashes.iter().find(|(_, h)| *h != hashes[0].1) {
        return Err(own(Violation::new(Rule::Validation, format!("guest content after the history differs between backends: {b} gives {h:#x}, sim gives {:#x}", hashes[0].1))));
    }
    Ok(punched)
}

struct GuestDomain;

impl Domain for GuestDomain {
    fn name(&self) -> &'static str {
        "histories"
    }
    fn cases(&self, tier: Tier) -> u64 {
        match tier {
            Tier::Quick => 200,
            Tier::Thorough => 6_000,
        }
    }
    fn strategy(&self, _tier: Tier) -> BoxedStrategy<RawCase> {
        raw_strategy(16, 20, 0, 0).boxed()
    }
    fn decode(&self, raw: &RawCase, _excl: &Exclusions) -> Value {
        let p = Profile {
            max_ops: 20,
            op_weights: [45, 25, 15, 8, 2, 5, 0],
            depth_weights: [100, 0, 0, 0],
            max_cluster_bits: 16,
            sched_pct: 0,
            ..Profile::default()
        };
        let d = gen::decode_seq(raw, &p).case;
        serde_json::to_value(GuestCase {
            layer: d.layers[0].clone(),
            params: d.params,
            ops: d.ops,
        })
        .unwrap()
    }
    fn run(&self, case: &Value, _excl: &Exclusions) -> CaseResult {
        let c: GuestCase = serde_json::from_value(case.clone()).unwrap();
        let (verdict, nt) = match run_guest_case(&c) {
            Ok(nt) => (Verdict::Pass, nt),
            Err(v) => {
                if v.has_tag("c19") {
                    (Verdict::Violation(v), false)
                } else if v.rule == Rule::Setup {
                    (Verdict::Inconclusive(v.msg), false)
                } else {
                    (Verdict::Foreign(v), false)
                }
            }
        };
        CaseResult {
            verdict,
            nontrivial: nt || c.ops.iter().any(|o| matches!(o, Op::Write { .. })),
            classes: vec![format!("cluster_bits:{}", c.layer.cluster_bits()), format!("bs_bits:{}", c.params.bs_bits)],
            excluded: vec![],
            counters: vec![("backend_runs".into(), 5)],
        }
    }
}

impl Prop for C19 {
    fn id(&self) -> &'static str {
        "C19"
    }
    fn level(&self) -> &'static str {
        "exploration"
    }
    fn rule_text(&self) -> String {
        "Domain requests: generated sequences of read / write / hole-punch / sync requests with offsets at, across and beyond \
         the end of file and lengths from 1 byte to above 5 MiB, executed through the Qcow2IoOps implementations for tokio, \
         synchronous I/O and io_uring on real temporary files (buffered I/O) and through the simulated file: results (byte \
         counts, data, Ok/Err) and the resulting file length and bytes must be identical. Domain histories: generated guest \
         histories (write/read/discard/flush/shrink) run on Qcow2Dev over each real backend, over the simulated file, and over \
         the simulated file with hole punching reported unsupported: every read and the final sweep must equal the reference \
         disk and the final content hash must agree across all five. Non-trivial: (requests) a request touched or crossed the \
         end of file; (histories) the history writes, or a punch hit allocated data. counters.backend_runs = executions."
            .into()
    }
    fn assumptions(&self) -> Vec<String> {
        vec![
            "buffered I/O only: O_DIRECT needs filesystem support and is not exercised; the kernel decides completion order on real backends".into(),
            "temporary files live under /verif/target/tmp and are removed after each case".into(),
        ]
    }
    fn domains(&self) -> Vec<Box<dyn Domain>> {
        vec![Box::new(RawDomain), Box::new(GuestDomain)]
    }
}
