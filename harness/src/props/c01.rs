//! C01 Sequential reads equal a flat reference disk
use super::common::*;
use crate::engine::{Rule, SeqCfg};
use crate::gen::{raw_strategy, Profile, RawCase};
use crate::runner::*;
use proptest::strategy::{BoxedStrategy, Strategy};
use serde_json::Value;

pub struct C01;

struct Seq;

fn profile() -> Profile {
    Profile::default()
}

pub fn cfg() -> SeqCfg {
    SeqCfg {
        sweep: true,
        check_on_flush: false,
        reopen_on_flush: false,
        mapping_check: true,
        align: false,
        final_flush: false,
        release_check: false,
        ..SeqCfg::default()
    }
}

impl Domain for Seq {
    fn name(&self) -> &'static str {
        "seq"
    }
    fn cases(&self, tier: Tier) -> u64 {
        match tier {
            Tier::Quick => 6_000,
            Tier::Thorough => 300_000,
        }
    }
    fn strategy(&self, _tier: Tier) -> BoxedStrategy<RawCase> {
        raw_strategy(24, profile().max_ops, 200, 0).boxed()
    }
    fn decode(&self, raw: &RawCase, _excl: &Exclusions) -> Value {
        decode_seq_value(raw, &profile())
    }
    fn run(&self, case: &Value, _excl: &Exclusions) -> CaseResult {
        let case = match case_from_value(case) {
            Ok(c) => c,
            Err(r) => return r,
        };
        let (run, verdict) = run_owned(&case, &cfg(), &|v| {
            matches!(v.rule, Rule::ReadLen | Rule::ReadData | Rule::Frame | Rule::MappingKind)
        });
        let st = &run.stats;
        CaseResult {
            verdict,
            nontrivial: st.ops_done >= 3 && (st.reads_of_modified > 0 || st.reads_of_initial_nonzero > 0),
            classes: seq_classes(st, &case),
        }
    }
}

impl Prop for C01 {
    fn id(&self) -> &'static str {
        "C01"
    }
    fn level(&self) -> &'static str {
        "exploration"
    }
    fn rule_text(&self) -> String {
        "Generated: (image chain: formatted or independently built with data/zero/compressed clusters and backing layers; \
         device parameters over the legal domain; sequential history of write/read/discard/flush/fsync/shrink/reopen; \
         optional intra-call completion schedule). Oracle: flat reference disk; every read and a full sweep after every \
         modifying op must equal it, get_mapping must agree with the model kind. Non-trivial: >= 3 operations executed and \
         at least one explicit read intersecting a cluster that was written/discarded earlier or whose initial content is \
         non-zero. Distinct = distinct decoded case (hash of the case JSON)."
            .into()
    }
    fn assumptions(&self) -> Vec<String> {
        vec![
            "SimFile implements the host-file semantics the library relies on (tied to real backends by C19)".into(),
            "the independent image builder produces spec-valid images (validated by its own checker/reader round trip)".into(),
            "virtual size is a multiple of every block size used in the case".into(),
        ]
    }
    fn domains(&self) -> Vec<Box<dyn Domain>> {
        vec![Box::new(Seq)]
    }
}
