//! C01 Sequential reads equal a flat reference disk
use super::seqdom::*;
use crate::engine::{Rule, SeqCfg};
use crate::gen::Profile;
use crate::runner::*;

pub struct C01;

pub fn cfg() -> SeqCfg {
    SeqCfg {
        sweep: true,
        check_on_flush: false,
        reopen_on_flush: false,
        mapping_check: true,
        align: false,
        final_flush: false,
        release_check: false,
        ..SeqCfg::default()
    }
}

impl Prop for C01 {
    fn id(&self) -> &'static str {
        "C01"
    }
    fn level(&self) -> &'static str {
        "exploration"
    }
    fn rule_text(&self) -> String {
        "Generated: (image chain: formatted by the library or independently built with data/zero/compressed clusters, \
         arbitrary placement and backing layers; device parameters over the legal domain; sequential history of \
         write/read/discard/flush/fsync/shrink/reopen; optional schedule for the completion order of the requests a call \
         has in flight). Oracle: flat reference disk; every read and a full sweep after every modifying op must equal it \
         (reads into poisoned buffers), get_mapping must agree with the model kind. Non-trivial: >= 3 operations executed and \
         at least one explicit read intersecting a cluster that was written/discarded earlier or whose initial content is \
         non-zero. Distinct = distinct decoded case (hash of the case JSON)."
            .into()
    }
    fn assumptions(&self) -> Vec<String> {
        vec![
            "SimFile implements the host-file semantics the library relies on (tied to the real backends by C19)".into(),
            "the independent image builder produces spec-valid images (validated against its own checker/reader)".into(),
            "virtual size is a multiple of every block size used in the case; block size and custom slice sizes do not exceed the smallest cluster size of the chain".into(),
        ]
    }
    fn domains(&self) -> Vec<Box<dyn Domain>> {
        vec![
        Box::new(SeqDomain {
            name: "seq",
            quick: 6_000,
            thorough: 300_000,
            profile: Profile::default,
            cfg,
            owns: |v| matches!(v.rule, Rule::ReadLen | Rule::ReadData | Rule::Frame | Rule::MappingKind),
            nontrivial: |r, _| r.stats.ops_done >= 3 && (r.stats.reads_of_modified > 0 || r.stats.reads_of_initial_nonzero > 0),
            tweak: no_tweak,
            case_tags: no_tags,
            extra_classes: no_classes,
            max_sched: 200,
            max_extra: 0,
        }),
        // fragmentation histories (see C03): allocations pieced together across refcount-block
        // slices and refcount blocks, judged by the data oracle
        Box::new(SeqDomain {
            name: "frag",
            quick: 2_000,
            thorough: 80_000,
            profile: || Profile {
                max_clusters: 400,
                ..super::seqprops::frag_profile()
            },
            cfg,
            owns: |v| matches!(v.rule, Rule::ReadLen | Rule::ReadData | Rule::Frame | Rule::MappingKind),
            nontrivial: |r, _| r.stats.ops_done >= 3 && (r.stats.reads_of_modified > 0 || r.stats.reads_of_initial_nonzero > 0),
            tweak: |c, raw, _, _| super::seqprops::frag_ops(c, raw),
            case_tags: no_tags,
            extra_classes: no_classes,
            max_sched: 200,
            max_extra: 0,
        })]
    }
}

/// fz_history: fuzzer input -> sequential case -> C01 oracle (rules C01 owns only)
pub fn fuzz_history(data: &[u8]) -> Option<crate::engine::Violation> {
    let raw = crate::gen::RawCase::from_bytes(data);
    let case = crate::gen::decode_seq(&raw, &Profile::default()).case;
    let run = crate::engine::run_seq(&case, &cfg());
    if run.inconclusive.is_some() {
        return None;
    }
    run.violation.filter(|v| matches!(v.rule, Rule::ReadLen | Rule::ReadData | Rule::Frame | Rule::MappingKind))
}
