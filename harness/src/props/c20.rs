//! C20 CLI: convert round-trips, format is valid, check's verdict is right
use crate::case::*;
use crate::engine::*;
use crate::gen::{self, raw_strategy, weighted1, Profile, RawCase, Src};
use crate::runner::*;
use crate::sim::World;
use crate::spec::checker::{self, Mode};
use crate::spec::layout::*;
use proptest::strategy::{BoxedStrategy, Strategy};
use serde::{Deserialize, Serialize};
use serde_json::Value;
use std::cell::RefCell;
use std::path::PathBuf;
use std::process::{Command, Stdio};
use std::time::{Duration, Instant};

pub struct C20;

fn own(v: Violation) -> Violation {
    v.tag("c20")
}

fn tmp_dir() -> PathBuf {
    thread_local! {
        static DIR: RefCell<Option<PathBuf>> = const { RefCell::new(None) };
    }
    DIR.with(|d| {
        let mut d = d.borrow_mut();
        if d.is_none() {
            let base = crate::runner::verif_root().join("target").join("tmp");
            let p = base.join(format!("c20-{}-{:?}", std::process::id(), std::thread::current().id()).replace(['(', ')'], ""));
            let _ = std::fs::create_dir_all(&p);
            *d = Some(p);
        }
        d.clone().unwrap()
    })
}

fn rqcow2() -> PathBuf {
    std::env::var("VERIF_RQCOW2").map(PathBuf::from).unwrap_or_else(|_| crate::runner::verif_root().join("target/repo-bin/release/rqcow2"))
}

/// Run the CLI with a watchdog. Ok(Some(code)) = exited; Ok(None) = killed by the watchdog.
fn run_cli(args: &[&str]) -> Result<Option<i32>, String> {
    let limit = Duration::from_secs(std::env::var("VERIF_CLI_TIMEOUT_S").ok().and_then(|s| s.parse().ok()).unwrap_or(180));
    let mut child = Command::new(rqcow2()).args(args).stdin(Stdio::null()).stdout(Stdio::null()).stderr(Stdio::null()).spawn().map_err(|e| format!("cannot run rqcow2: {e}"))?;
    let t0 = Instant::now();
    loop {
        match child.try_wait() {
            Ok(Some(st)) => {
                use std::os::unix::process::ExitStatusExt;
                return Ok(Some(st.code().unwrap_or(128 + st.signal().unwrap_or(0))));
            }
            Ok(None) => {
                if t0.elapsed() > limit {
                    let _ = child.kill();
                    let _ = child.wait();
                    return Ok(None);
                }
                std::thread::sleep(Duration::from_millis(5));
            }
            Err(e) => return Err(format!("wait failed: {e}")),
        }
    }
}

// ---------------------------------------------------------------------------------------
// convert round trip
// ---------------------------------------------------------------------------------------

#[derive(Clone, Debug, Serialize, Deserialize)]
pub struct ConvertCase {
    pub size: u64,
    /// 0 random-ish, 1 zero runs, 2 sparse, 3 all zero
    pub content: u8,
    pub seed: u16,
}

fn raw_content(c: &ConvertCase) -> Vec<u8> {
    let n = c.size as usize;
    let mut v = vec![0u8; n];
    let mut x = c.seed as u32 | 1;
    match c.content {
        0 => {
            for b in v.iter_mut() {
                x = x.wrapping_mul(1664525).wrapping_add(1013904223);
                *b = (x >> 24) as u8;
            }
        }
        1 => {
            for (i, b) in v.iter_mut().enumerate() {
                if (i / 70_000) % 2 == 0 {
                    x = x.wrapping_mul(1664525).wrapping_add(1013904223);
                    *b = (x >> 24) as u8 | 1;
                }
            }
        }
        2 => {
            for i in (0..n).step_by(4096 * 3 + 17) {
                v[i] = 0x42;
            }
        }
        _ => {}
    }
    v
}

fn gen_convert(raw: &RawCase) -> ConvertCase {
    let mut s = Src::new(&raw.head);
    let cl = 65536u64;
    let chunk = 8u64 << 20;
    let size = match s.weighted(&[22, 18, 20, 20, 10, 10]) {
        0 => [1u64, 511, 512, 513, 4095, 4096, 4097][s.pick(7)],
        1 => [cl - 1, cl, cl + 1, 2 * cl - 1, 2 * cl + 1, 3 * cl][s.pick(6)],
        2 => s.range(1, 4 * cl),
        3 => cl * (1 + s.pick(40) as u64) + [0u64, 1, 511, 512, 4096, cl - 1][s.pick(6)],
        4 => [chunk - 1, chunk, chunk + 1, chunk + 512][s.pick(4)],
        _ => 2 * chunk + s.range(0, cl * 3),
    };
    ConvertCase {
        size,
        content: s.pick(4) as u8,
        seed: s.next(),
    }
}

fn run_convert(c: &ConvertCase) -> Result<bool, Violation> {
    let dir = tmp_dir();
    let raw_in = dir.join("in.raw");
    let img = dir.join("out.qcow2");
    let raw_out = dir.join("back.raw");
    for p in [&raw_in, &img, &raw_out] {
        let _ = std::fs::remove_file(p);
    }
    let data = raw_content(c);
    std::fs::write(&raw_in, &data).map_err(|e| Violation::new(Rule::Setup, format!("temp file: {e}")))?;
    let cleanup = || {
        for p in [&raw_in, &img, &raw_out] {
            let _ = std::fs::remove_file(p);
        }
    };
    let what = format!("raw input of {} bytes (content class {})", c.size, c.content);
    let r = run_cli(&["convert", "-f", "raw", "-O", "qcow2", "-o", img.to_str().unwrap(), raw_in.to_str().unwrap()]).map_err(|e| Violation::new(Rule::Setup, e))?;
    match r {
        None => {
            cleanup();
            return Err(Violation::new(Rule::Setup, format!("watchdog: convert raw->qcow2 of {what} did not terminate in time")).tag("watchdog"));
        }
        Some(0) => {}
        Some(code) => {
            cleanup();
            return Err(own(Violation::new(Rule::ApiErr, format!("rqcow2 convert raw->qcow2 failed with exit status {code} for {what}")).tag("convert_to_qcow2").tag(format!("size_mod_512:{}", if c.size % 512 == 0 { "0" } else { "nonzero" }))));
        }
    }
    let bytes = std::fs::read(&img).unwrap_or_default();
    let rep = checker::check(&bytes, Mode::Strict);
    if !rep.ok(Mode::Strict) {
        cleanup();
        return Err(own(Violation::new(Rule::CheckCorrupt, format!("image produced by convert from {what} is not valid: {}", rep.summary(Mode::Strict))).tag("convert_to_qcow2")));
    }
    let r = run_cli(&["convert", "-f", "qcow2", "-O", "raw", "-o", raw_out.to_str().unwrap(), img.to_str().unwrap()]).map_err(|e| Violation::new(Rule::Setup, e))?;
    match r {
        None => {
            cleanup();
            return Err(Violation::new(Rule::Setup, format!("watchdog: convert qcow2->raw of {what} did not terminate in time")).tag("watchdog"));
        }
        Some(0) => {}
        Some(code) => {
            cleanup();
            return Err(own(Violation::new(Rule::ApiErr, format!("rqcow2 convert qcow2->raw failed with exit status {code} for {what}")).tag("convert_from_qcow2")));
        }
    }
    let back = std::fs::read(&raw_out).unwrap_or_default();
    cleanup();
    let padded = (c.size as usize).div_ceil(65536) * 65536;
    let mut expect = data;
    expect.resize(padded, 0);
    if back.len() != expect.len() {
        return Err(own(Violation::new(Rule::ReadData, format!("round trip of {what}: output has {} bytes, expected the input zero-padded to {} bytes", back.len(), expect.len())).tag("roundtrip")));
    }
    if back != expect {
        let pos = back.iter().zip(expect.iter()).position(|(a, b)| a != b).unwrap_or(0);
        return Err(own(Violation::new(Rule::ReadData, format!("round trip of {what}: output differs from the input at byte {pos}")).tag("roundtrip")));
    }
    Ok(c.size % 512 != 0 || c.size % 65536 != 0)
}

struct ConvertDomain;
impl Domain for ConvertDomain {
    fn name(&self) -> &'static str {
        "convert"
    }
    fn cases(&self, tier: Tier) -> u64 {
        match tier {
            Tier::Quick => 120,
            Tier::Thorough => 3_000,
        }
    }
    fn strategy(&self, _tier: Tier) -> BoxedStrategy<RawCase> {
        raw_strategy(0, 0, 0, 0).boxed()
    }
    fn decode(&self, raw: &RawCase, _excl: &Exclusions) -> Value {
        serde_json::to_value(gen_convert(raw)).unwrap()
    }
    fn run(&self, case: &Value, _excl: &Exclusions) -> CaseResult {
        let c: ConvertCase = serde_json::from_value(case.clone()).unwrap();
        let (verdict, nt) = match run_convert(&c) {
            Ok(nt) => (Verdict::Pass, nt),
            Err(v) if v.has_tag("c20") => (Verdict::Violation(v), false),
            Err(v) => (Verdict::Inconclusive(v.msg), false),
        };
        CaseResult {
            verdict,
            nontrivial: nt,
            classes: vec![
                if c.size % 512 != 0 { "size_not_block_multiple".into() } else if c.size % 65536 != 0 { "size_not_cluster_multiple".into() } else { "size_cluster_multiple".into() },
                if c.size > (8 << 20) { "multi_chunk".into() } else { "single_chunk".into() },
                format!("content:{}", c.content),
            ],
            excluded: vec![],
            counters: vec![("cli_invocations".into(), 2)],
        }
    }
}

// ---------------------------------------------------------------------------------------
// format
// ---------------------------------------------------------------------------------------

#[derive(Clone, Debug, Serialize, Deserialize)]
pub struct FormatCliCase {
    pub size_mb: u32,
    pub cluster_bits: u8,
    pub refcount_order: u8,
}

struct FormatDomain;
impl Domain for FormatDomain {
    fn name(&self) -> &'static str {
        "format"
    }
    fn cases(&self, tier: Tier) -> u64 {
        match tier {
            Tier::Quick => 150,
            Tier::Thorough => 4_000,
        }
    }
    fn strategy(&self, _tier: Tier) -> BoxedStrategy<RawCase> {
        raw_strategy(0, 0, 0, 0).boxed()
    }
    fn decode(&self, raw: &RawCase, _excl: &Exclusions) -> Value {
        let mut s = Src::new(&raw.head);
        let cb = 9 + s.pick(13) as u8;
        let ro = s.pick(7) as u8;
        let cs = 1u64 << cb;
        // sizes the 32 MiB L1 limit and the formatter's single refcount block permit
        let max_mb = std::cmp::min(((4u64 << 20) * (cs / 8) * cs) >> 20, 1 << 22);
        let size_mb = match s.weighted(&[30, 40, 30]) {
            0 => 1 + s.pick(16) as u64,
            1 => 1 + s.pick(4096) as u64,
            _ => s.range(1, max_mb),
        };
        let mut size_mb = std::cmp::min(size_mb, max_mb);
        // stay inside the formatter's documented single-refcount-block limit
        loop {
            let size = size_mb << 20;
            let rbe = (cs * 8) >> ro;
            let l1_bytes = size.div_ceil(cs).div_ceil(cs / 8) * 8;
            let rt_bytes = size.div_ceil(rbe * cs) * 8;
            let meta = 2 + rt_bytes.div_ceil(cs).max(1) + l1_bytes.div_ceil(cs).max(1);
            if meta + 2 < rbe || size_mb <= 1 {
                break;
            }
            size_mb /= 2;
        }
        serde_json::to_value(FormatCliCase {
            size_mb: size_mb.max(1) as u32,
            cluster_bits: cb,
            refcount_order: ro,
        })
        .unwrap()
    }
    fn run(&self, case: &Value, _excl: &Exclusions) -> CaseResult {
        let c: FormatCliCase = serde_json::from_value(case.clone()).unwrap();
        let img = tmp_dir().join("fmt.qcow2");
        let _ = std::fs::remove_file(&img);
        let r = run_cli(&[
            "format",
            "-s",
            &c.size_mb.to_string(),
            "-c",
            &c.cluster_bits.to_string(),
            "-r",
            &c.refcount_order.to_string(),
            img.to_str().unwrap(),
        ]);
        let verdict = match r {
            Err(e) => Verdict::Inconclusive(e),
            Ok(None) => Verdict::Inconclusive("watchdog: format did not terminate".into()),
            Ok(Some(0)) => {
                let bytes = std::fs::read(&img).unwrap_or_default();
                let rep = checker::check(&bytes, Mode::Strict);
                if !rep.ok(Mode::Strict) {
                    Verdict::Violation(own(Violation::new(Rule::CheckCorrupt, format!("rqcow2 format {c:?} produced an invalid image: {}", rep.summary(Mode::Strict))).tag("format")))
                } else if rep.header.as_ref().map(|h| h.size != (c.size_mb as u64) << 20 || h.cluster_bits != c.cluster_bits as u32 || h.refcount_order != c.refcount_order as u32).unwrap_or(true) {
                    Verdict::Violation(own(Violation::new(Rule::Validation, format!("rqcow2 format {c:?}: header fields do not match the request")).tag("format")))
                } else {
                    Verdict::Pass
                }
            }
            Ok(Some(code)) => Verdict::Violation(own(Violation::new(Rule::ApiErr, format!("rqcow2 format {c:?} failed with exit status {code}")).tag("format"))),
        };
        let _ = std::fs::remove_file(&img);
        CaseResult {
            verdict,
            nontrivial: c.cluster_bits != 16 || c.refcount_order != 4,
            classes: vec![format!("cluster_bits:{}", c.cluster_bits), format!("refcount_order:{}", c.refcount_order)],
            excluded: vec![],
            counters: vec![("cli_invocations".into(), 1)],
        }
    }
}

// ---------------------------------------------------------------------------------------
// check verdicts
// ---------------------------------------------------------------------------------------

#[derive(Clone, Debug, Serialize, Deserialize)]
pub struct CheckCase {
    pub layer: LayerSpec,
    pub params: DevParams,
    /// history executed (and flushed) before the image is judged
    pub ops: Vec<Op>,
    /// inject a leak: choice of the unreferenced cluster
    pub leak: Option<u16>,
    /// also run the binary (slower)
    pub via_binary: bool,
}

fn check_profile() -> Profile {
    Profile {
        max_ops: 12,
        op_weights: [58, 5, 22, 10, 0, 5, 0],
        depth_weights: [100, 0, 0, 0],
        max_cluster_bits: 16,
        max_clusters: 40,
        sched_pct: 0,
        ..Profile::default()
    }
}

fn run_check_case(c: &CheckCase) -> Result<(bool, bool), Violation> {
    // produce the image: initial bytes + history + flush (on the simulated backend)
    let layers = build_layers(std::slice::from_ref(&c.layer)).map_err(|e| Violation::new(Rule::Setup, e.msg))?;
    let world = World::new();
    world.add_file(&layer_name(0), layers.bytes[0].clone());
    {
        let seq = SeqCase {
            layers: vec![c.layer.clone()],
            params: c.params.clone(),
            read_only: false,
            ops: c.ops.clone(),
            sched: None,
            faults: None,
            reopen_params: vec![],
            excluded: vec![],
        };
        let cfg = SeqCfg {
            sweep: false,
            check_on_flush: false,
            reopen_on_flush: false,
            mapping_check: false,
            align: false,
            final_flush: true,
            release_check: false,
            ..SeqCfg::default()
        };
        let run = run_seq(&seq, &cfg);
        if let Some(v) = run.violation {
            return Err(v); // foreign
        }
        if let Some(m) = run.inconclusive {
            return Err(Violation::new(Rule::Setup, m));
        }
        let b = run.world.bytes(0);
        world.0.borrow_mut().files[0].live = b;
    }
    let mut bytes = world.bytes(0);
    let rep = checker::check(&bytes, Mode::Strict);
    if !rep.ok(Mode::Strict) {
        return Err(Violation::new(Rule::CheckLeak, format!("image is not consistent after the history: {}", rep.summary(Mode::Strict))));
    }
    let h = rep.header.clone().unwrap();
    let mut injected = false;
    if let Some(k) = c.leak {
        // an unreferenced cluster inside refcount coverage gets a refcount of 1
        let cs = h.cluster_size();
        let free: Vec<u64> = (1..rep.covered).filter(|cl| !rep.refs.contains_key(cl) && checker::stored_refcount(&bytes, &h, *cl) == Some(0)).take(4096).collect();
        if free.is_empty() {
            return Err(Violation::new(Rule::Setup, "no free covered cluster to leak"));
        }
        let cl = free[gen::pick1(k, free.len())];
        let rbe = h.rb_entries();
        let rt_e = be64_z(&bytes, h.refcount_table_offset + (cl / rbe) * 8) & !0x1ff;
        let need = (rt_e + cs) as usize;
        if bytes.len() < need {
            bytes.resize(need, 0);
        }
        let blk = &mut bytes[rt_e as usize..(rt_e + cs) as usize];
        rc_set(blk, h.refcount_order, cl % rbe, 1);
        injected = true;
        if std::env::var("VERIF_TRACE").is_ok() {
            eprintln!("leak injected at host cluster {cl} (covered {}, file clusters {}, refs {:?})", rep.covered, bytes.len() as u64 / cs, rep.refs.keys().collect::<Vec<_>>());
        }
        let rep2 = checker::check(&bytes, Mode::Strict);
        if rep2.leaked.is_empty() {
            return Err(Violation::new(Rule::Setup, "harness: injected leak not seen by the independent checker"));
        }
    }
    // library verdict
    let w2 = World::new();
    w2.add_file(&layer_name(0), bytes.clone());
    let verdict_lib: Result<(), String> = match open_chain(&w2, 0, &DevParams { bs_bits: 9, l2: None, rb: None }, false) {
        Ok(Ok(dev)) => {
            let mut s = Sched::new(None);
            match drive(&w2, &mut s, dev.check()) {
                Driven::Done(r) => r.map_err(|e| format!("{e:?}")),
                Driven::Panic(p) => return Err(own(Violation::new(Rule::Panic, format!("Qcow2Dev::check() panicked: {p}")).tag("check"))),
                _ => return Err(own(Violation::new(Rule::Deadlock, "Qcow2Dev::check() did not complete").tag("check"))),
            }
        }
        Ok(Err(e)) => return Err(own(Violation::new(Rule::ApiErr, format!("a consistent image does not open: {e}")).tag("check"))),
        Err(p) => return Err(own(Violation::new(Rule::Panic, format!("open panicked: {p}")).tag("check"))),
    };
    let describe = || -> String {
        let kinds = match &c.layer {
            LayerSpec::Built(s) => format!("built image (clusters {:?}, l1_extra {}, rt_extra {})", s.clusters.iter().take(6).collect::<Vec<_>>(), s.l1_extra, s.rt_extra),
            LayerSpec::Formatted { .. } => "formatted image".to_string(),
        };
        format!("{kinds} after {} operations", c.ops.len())
    };
    if injected && verdict_lib.is_ok() {
        return Err(own(Violation::new(Rule::Validation, format!("Qcow2Dev::check() accepts an image with a leaked cluster ({})", describe())).tag("check").tag("missed_leak")));
    }
    if !injected {
        if let Err(e) = &verdict_lib {
            let mut v = Violation::new(Rule::Validation, format!("Qcow2Dev::check() rejects a consistent image ({}): {e}", describe())).tag("check").tag("false_leak");
            if let LayerSpec::Built(s) = &c.layer {
                use crate::spec::builder::CKind;
                if s.clusters.iter().any(|k| matches!(k, CKind::ZeroPrealloc)) && s.version >= 3 {
                    v.tags.push("image:zero_prealloc".into());
                }
                if s.l1_extra > 0 {
                    v.tags.push("image:l1_extra".into());
                }
            }
            return Err(own(v));
        }
    }
    if c.via_binary {
        let img = tmp_dir().join("chk.qcow2");
        std::fs::write(&img, &bytes).map_err(|e| Violation::new(Rule::Setup, format!("temp file: {e}")))?;
        let r = run_cli(&["check", img.to_str().unwrap()]);
        let _ = std::fs::remove_file(&img);
        match r {
            Err(e) => return Err(Violation::new(Rule::Setup, e)),
            Ok(None) => return Err(Violation::new(Rule::Setup, "watchdog: rqcow2 check did not terminate").tag("watchdog")),
            Ok(Some(code)) => {
                if injected && code == 0 {
                    return Err(own(Violation::new(Rule::Validation, format!("rqcow2 check exits 0 for an image with a leaked cluster ({})", describe())).tag("check_cli").tag("missed_leak")));
                }
                if !injected && code != 0 {
                    return Err(own(Violation::new(Rule::Validation, format!("rqcow2 check fails (exit {code}) on a consistent image ({})", describe())).tag("check_cli").tag("false_leak")));
                }
            }
        }
    }
    Ok((injected, c.via_binary))
}

struct CheckDomain;
impl Domain for CheckDomain {
    fn name(&self) -> &'static str {
        "check"
    }
    fn cases(&self, tier: Tier) -> u64 {
        match tier {
            Tier::Quick => 1_500,
            Tier::Thorough => 40_000,
        }
    }
    fn strategy(&self, _tier: Tier) -> BoxedStrategy<RawCase> {
        raw_strategy(16, 12, 0, 4).boxed()
    }
    fn decode(&self, raw: &RawCase, _excl: &Exclusions) -> Value {
        let d = gen::decode_seq(raw, &check_profile()).case;
        let mut ops = d.ops;
        ops.retain(|o| !matches!(o, Op::Reopen { .. }));
        let e = |i: usize| raw.extra.get(i).copied().unwrap_or(0);
        serde_json::to_value(CheckCase {
            layer: d.layers[0].clone(),
            params: d.params,
            ops,
            leak: if weighted1(e(0), &[50, 50]) == 1 { Some(e(1)) } else { None },
            via_binary: weighted1(e(2), &[93, 7]) == 1,
        })
        .unwrap()
    }
    fn run(&self, case: &Value, _excl: &Exclusions) -> CaseResult {
        let c: CheckCase = serde_json::from_value(case.clone()).unwrap();
        let r = run_check_case(&c);
        let (verdict, nt, bin) = match r {
            Ok((inj, bin)) => (Verdict::Pass, inj, bin),
            Err(v) if v.has_tag("c20") => (Verdict::Violation(v), false, false),
            Err(v) if v.rule == Rule::Setup => (Verdict::Inconclusive(v.msg), false, false),
            Err(v) => (Verdict::Foreign(v), false, false),
        };
        let mut classes = vec![if c.leak.is_some() { "injected_leak".into() } else { "consistent".to_string() }];
        if bin {
            classes.push("via_binary".into());
        }
        CaseResult {
            verdict,
            nontrivial: nt,
            classes,
            excluded: vec![],
            counters: vec![("cli_invocations".into(), if bin { 1 } else { 0 })],
        }
    }
}

impl Prop for C20 {
    fn id(&self) -> &'static str {
        "C20"
    }
    fn level(&self) -> &'static str {
        "exploration"
    }
    fn rule_text(&self) -> String {
        "The rqcow2 binary is built from /repo's working tree. Domain convert: raw files of generated size (1, 511, 512, 513, \
         4095..4097, around one and several 64 KiB clusters, around the 8 MiB copy chunk, multi-chunk) and content (pseudo-random, \
         zero runs, sparse, all zero): convert raw->qcow2 must exit 0, the image must pass the independent strict checker, \
         convert qcow2->raw must exit 0 and the output must equal the input zero-padded to the cluster size; a watchdog expiry is \
         inconclusive, never a violation. Domain format: rqcow2 format over size x cluster_bits x refcount_order (inside the \
         formatter's stated limits): exit 0, strict checker accepts, header fields match. Domain check: images produced by \
         generated histories + flush (consistent by the independent checker), half of them with an injected leak (refcount of an \
         unreferenced covered cluster set to 1 by an independent editor): Qcow2Dev::check() - and for a sample the binary - must \
         accept every consistent image and fail on every leaked one. Non-trivial: (convert) size not a multiple of 512 or of the \
         cluster; (format) non-default geometry; (check) an injected leak."
            .into()
    }
    fn assumptions(&self) -> Vec<String> {
        vec![
            "termination of an external process can only be observed through a watchdog (180 s); its expiry is reported as inconclusive".into(),
            "temporary files live under /verif/target/tmp".into(),
        ]
    }
    fn domains(&self) -> Vec<Box<dyn Domain>> {
        vec![Box::new(ConvertDomain), Box::new(FormatDomain), Box::new(CheckDomain)]
    }
}
