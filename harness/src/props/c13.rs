//! C13 Request validation: bad arguments are rejected without side effects
use crate::case::*;
use crate::engine::*;
use crate::gen::{self, raw_strategy, weighted1, Profile, RawCase};
use crate::model::Model;
use crate::pat::{Pat, POISON};
use crate::runner::*;
use crate::sim::{ABuf, ReqKind, World};
use proptest::strategy::{BoxedStrategy, Strategy};
use serde::{Deserialize, Serialize};
use serde_json::Value;

pub struct C13;

#[derive(Clone, Debug, Serialize, Deserialize, PartialEq)]
pub struct Probe {
    pub call: String,
    pub off: u64,
    pub len: u64,
    pub class: String,
}

#[derive(Clone, Debug, Serialize, Deserialize)]
pub struct ValCase {
    pub layers: Vec<LayerSpec>,
    pub params: DevParams,
    pub read_only: bool,
    pub prefix: Vec<Op>,
    pub probes: Vec<Probe>,
}

fn profile() -> Profile {
    Profile {
        max_ops: 10,
        op_weights: [60, 0, 15, 15, 0, 10, 0],
        max_clusters: 24,
        cb_weights: [25, 20, 15, 20, 15, 5],
        max_cluster_bits: 18,
        // the probes include writes of the whole device: keep it small enough that the host file
        // stays inside the initial refcount table (growth is C12's subject and a known finding there)
        wide_l1_pct: 0,
        ..Profile::default()
    }
}

fn gen_off(r: &[u16], vsize: u64, bs: u64, cs: u64) -> (u64, &'static str) {
    match weighted1(r[1], &[8, 6, 8, 8, 8, 6, 6, 6, 6, 6, 6, 6, 10, 10]) {
        0 => (0, "off:0"),
        1 => (bs, "off:bs"),
        2 => (vsize - bs, "off:last_block"),
        3 => (vsize, "off:end"),
        4 => (vsize + bs, "off:beyond_end"),
        5 => (vsize - 1, "off:end-1"),
        6 => (vsize + 1, "off:end+1"),
        7 => (1, "off:1"),
        8 => (bs + 1, "off:bs+1"),
        9 => (u64::MAX, "off:u64max"),
        10 => (u64::MAX - bs + 1, "off:u64max-bs+1"),
        11 => (1u64 << 63, "off:2^63"),
        12 => {
            let blocks = vsize / bs;
            (gen::pick1(r[2], blocks as usize) as u64 * bs, "off:valid_aligned")
        }
        _ => {
            let c = gen::pick1(r[2], vsize.div_ceil(cs) as usize) as u64;
            let o = c * cs;
            if r[3] & 1 == 0 {
                (o.saturating_sub(bs), "off:cluster_boundary-bs")
            } else {
                (std::cmp::min(o + 511 + (r[3] as u64 % 3), vsize), "off:unaligned_in_range")
            }
        }
    }
}

fn gen_len(r: &[u16], off: u64, vsize: u64, bs: u64, cs: u64) -> (u64, &'static str) {
    let rest = vsize.saturating_sub(off);
    match weighted1(r[4], &[10, 6, 6, 14, 6, 8, 8, 8, 10, 8, 8, 4]) {
        0 => (0, "len:0"),
        1 => (1, "len:1"),
        2 => (bs - 1, "len:bs-1"),
        3 => (bs, "len:bs"),
        4 => (bs + 1, "len:bs+1"),
        5 => (2 * bs, "len:2bs"),
        6 => (cs, "len:cluster"),
        7 => (cs + bs, "len:cluster+bs"),
        8 => (std::cmp::max(rest, bs), "len:to_end"),
        9 => (rest + bs, "len:past_end_by_bs"),
        10 => (std::cmp::min(3 * cs, 4 << 20), "len:3_clusters"),
        _ => (std::cmp::min(4 << 20, 8 * cs + 512), "len:large"),
    }
}

fn decode(raw: &RawCase) -> ValCase {
    let p = profile();
    let d = gen::decode_seq(raw, &p).case;
    let vsize = d.layers[0].vsize();
    let cs = 1u64 << d.layers[0].cluster_bits();
    let bs = 1u64 << d.params.bs_bits;
    let mut s = gen::Src::new(&raw.extra);
    let read_only = s.chance(1, 3);
    let mut probes = Vec::new();
    for r in raw.ops.iter().skip(p.max_ops).take(24) {
        let call = match weighted1(r[0], &[40, 40, 20]) {
            0 => "read",
            1 => "write",
            _ => "discard",
        };
        let (off, oc) = gen_off(r, vsize, bs, cs);
        let (len, lc) = if call == "discard" {
            match weighted1(r[4], &[20, 20, 20, 10, 10, 10, 10]) {
                0 => (cs, "len:cluster"),
                1 => (0, "len:0"),
                2 => (u64::MAX, "len:u64max"),
                3 => (1, "len:1"),
                4 => (vsize, "len:vsize"),
                5 => (cs - 1, "len:cluster-1"),
                _ => (3 * cs + 512, "len:3_clusters+512"),
            }
        } else {
            gen_len(r, off, vsize, bs, cs)
        };
        probes.push(Probe {
            call: call.into(),
            off,
            len,
            class: format!("{call}:{oc}:{lc}"),
        });
    }
    ValCase {
        layers: d.layers,
        params: d.params,
        read_only,
        prefix: d.ops,
        probes,
    }
}

struct Out {
    violation: Option<Violation>,
    inconclusive: Option<String>,
    classes: Vec<String>,
    rejected: usize,
    boundary: usize,
}

fn modifying_since(world: &World, from: usize) -> Option<String> {
    let w = world.0.borrow();
    w.log[from..]
        .iter()
        .find(|r| matches!(r.kind, ReqKind::Write | ReqKind::Punch))
        .map(|r| format!("{:?} off={} len={} (file {})", r.kind, r.off, r.len, r.file))
}

fn run_val(case: &ValCase) -> Out {
    let mut out = Out {
        violation: None,
        inconclusive: None,
        classes: vec![],
        rejected: 0,
        boundary: 0,
    };
    let layers = match build_layers(&case.layers) {
        Ok(l) => l,
        Err(e) => {
            out.inconclusive = Some(e.msg);
            return out;
        }
    };
    let world = World::new();
    for (i, b) in layers.bytes.iter().enumerate() {
        world.add_file(&layer_name(i), b.clone());
    }
    let mut model = Model::new(&case.layers, &layers.truths);
    let r = run_val_inner(case, &world, &mut model, &mut out);
    if let Err(v) = r {
        out.violation = Some(v);
    }
    out
}

fn own(v: Violation) -> Violation {
    v.tag("c13")
}

fn run_val_inner(case: &ValCase, world: &World, model: &mut Model, out: &mut Out) -> Result<(), Violation> {
    let mut sched = Sched::new(None);
    let vsize = model.vsize;
    let cs = model.cs;
    let bs = case.params.bs() as u64;
    // valid prefix on a writable device (foreign rules if it misbehaves)
    let mut dev = match open_chain(world, 0, &case.params, false) {
        Ok(Ok(d)) => d,
        Ok(Err(e)) => return Err(Violation::new(Rule::ApiErr, format!("open failed: {e}")).tag("open")),
        Err(p) => return Err(Violation::new(Rule::Panic, format!("open panicked: {p}")).tag("open")),
    };
    for (i, op) in case.prefix.iter().enumerate() {
        match op {
            Op::Write { off, len, pat } => {
                let mut data = ABuf::new(*len, 0);
                crate::pat::fill(&mut data, *pat, *off);
                match drive(world, &mut sched, dev.write_at(&data, *off)) {
                    Driven::Done(Ok(())) => model.write(*off, &data),
                    Driven::Done(Err(e)) => return Err(Violation::new(Rule::ApiErr, format!("prefix write failed: {e:?}")).at(i)),
                    Driven::Panic(p) => return Err(Violation::new(Rule::Panic, format!("prefix write panicked: {p}")).at(i)),
                    _ => return Err(Violation::new(Rule::Deadlock, "prefix write did not complete").at(i)),
                }
            }
            Op::Discard { off, len } => match drive(world, &mut sched, dev.discard(*off, *len)) {
                Driven::Done(Ok(())) => {
                    model.discard(*off, *len);
                }
                Driven::Done(Err(e)) => return Err(Violation::new(Rule::DiscardErr, format!("prefix discard failed: {e:?}")).at(i)),
                Driven::Panic(p) => return Err(Violation::new(Rule::Panic, format!("prefix discard panicked: {p}")).at(i)),
                _ => return Err(Violation::new(Rule::Deadlock, "prefix discard did not complete").at(i)),
            },
            _ => match drive(world, &mut sched, dev.flush_meta()) {
                Driven::Done(Ok(())) => {}
                Driven::Done(Err(e)) => return Err(Violation::new(Rule::ApiErr, format!("prefix flush failed: {e:?}")).at(i)),
                Driven::Panic(p) => return Err(Violation::new(Rule::Panic, format!("prefix flush panicked: {p}")).at(i)),
                _ => return Err(Violation::new(Rule::Deadlock, "prefix flush did not complete").at(i)),
            },
        }
    }
    if case.read_only {
        match drive(world, &mut sched, dev.flush_meta()) {
            Driven::Done(Ok(())) => {}
            _ => return Err(Violation::new(Rule::ApiErr, "flush before read-only reopen failed")),
        }
        drop(dev);
        dev = match open_chain(world, 0, &case.params, true) {
            Ok(Ok(d)) => d,
            Ok(Err(e)) => return Err(Violation::new(Rule::ApiErr, format!("read-only open failed: {e}")).tag("open")),
            Err(p) => return Err(Violation::new(Rule::Panic, format!("read-only open panicked: {p}")).tag("open")),
        };
    }
    let small = vsize <= (256 << 10);
    for (pi, p) in case.probes.iter().enumerate() {
        let log0 = world.log_len();
        let nf0 = dev.need_flush_meta();
        let what = format!("{}(off={}, len={}) on a {} device (block size {}, virtual size {})", p.call, p.off, p.len, if case.read_only { "read-only" } else { "writable" }, bs, vsize);
        out.classes.push(p.class.clone());
        if !p.class.contains("valid_aligned") || p.class.contains("len:0") || p.class.contains("past_end") {
            out.boundary += 1;
        }
        let len = p.len as usize;
        let mut rejected = false;
        match p.call.as_str() {
            "read" => {
                let mut buf = ABuf::new(len, POISON);
                let r = match drive(world, &mut sched, dev.read_at(&mut buf, p.off)) {
                    Driven::Done(r) => r,
                    Driven::Panic(m) => return Err(own(Violation::new(Rule::Panic, format!("{what} panicked: {m}")).at(pi).tag(format!("panic:{}", panic_site(&m))))),
                    _ => return Err(own(Violation::new(Rule::Deadlock, format!("{what} did not complete")).at(pi))),
                };
                let aligned = p.len % bs == 0 && p.off % bs == 0;
                if p.off >= vsize {
                    // starts at or beyond the end: Err (Ok(0) tolerated for a zero-length read)
                    match r {
                        Err(_) => rejected = true,
                        Ok(0) if p.len == 0 => {}
                        Ok(n) => return Err(own(Violation::new(Rule::Validation, format!("{what} starts at or beyond the end but returned Ok({n})")).at(pi))),
                    }
                } else if p.len == 0 {
                    match r {
                        Ok(0) => {}
                        Err(_) => rejected = true,
                        Ok(n) => return Err(own(Violation::new(Rule::Validation, format!("{what} returned Ok({n})")).at(pi))),
                    }
                } else if !aligned {
                    match r {
                        Err(_) => rejected = true,
                        Ok(n) => return Err(own(Violation::new(Rule::Validation, format!("{what} is not block aligned but returned Ok({n})")).at(pi))),
                    }
                } else {
                    let expect = if p.off + p.len > vsize { ((vsize - p.off) / bs * bs) as usize } else { len };
                    match r {
                        Ok(n) if n == expect => {
                            if buf[..n] != model.disk[p.off as usize..p.off as usize + n] {
                                return Err(own(Violation::new(Rule::ReadData, format!("{what}: returned data differs from the reference disk")).at(pi)));
                            }
                        }
                        Ok(n) => return Err(own(Violation::new(Rule::Validation, format!("{what} returned {n}, documented count is {expect}")).at(pi))),
                        Err(e) => return Err(own(Violation::new(Rule::Validation, format!("{what} is valid but failed: {e:?}")).at(pi))),
                    }
                }
            }
            "write" => {
                let mut data = ABuf::new(len, 0);
                let pat = Pat { id: 0x7000 + pi as u32, sparse: false };
                if len % 512 == 0 && p.off % 512 == 0 && len > 0 {
                    crate::pat::fill(&mut data, pat, p.off);
                } else {
                    data.fill(0x5a);
                }
                let r = match drive(world, &mut sched, dev.write_at(&data, p.off)) {
                    Driven::Done(r) => r,
                    Driven::Panic(m) => return Err(own(Violation::new(Rule::Panic, format!("{what} panicked: {m}")).at(pi).tag(format!("panic:{}", panic_site(&m))))),
                    _ => return Err(own(Violation::new(Rule::Deadlock, format!("{what} did not complete")).at(pi))),
                };
                let beyond = p.off.checked_add(p.len).map(|e| e > vsize).unwrap_or(true);
                let aligned = p.len % bs == 0 && p.off % bs == 0;
                let must_fail = beyond || !aligned || case.read_only;
                match r {
                    Err(_) => {
                        rejected = true;
                        if !must_fail && p.len > 0 {
                            return Err(own(Violation::new(Rule::Validation, format!("{what} is valid but failed")).at(pi)));
                        }
                    }
                    Ok(()) => {
                        if must_fail {
                            return Err(own(Violation::new(Rule::Validation, format!("{what} must be rejected but returned Ok")).at(pi)));
                        }
                        if p.len > 0 {
                            model.write(p.off, &data);
                        }
                    }
                }
            }
            _ => {
                let r = match drive(world, &mut sched, dev.discard(p.off, p.len)) {
                    Driven::Done(r) => r,
                    Driven::Panic(m) => return Err(own(Violation::new(Rule::Panic, format!("{what} panicked: {m}")).at(pi).tag(format!("panic:{}", panic_site(&m))))),
                    _ => return Err(own(Violation::new(Rule::Deadlock, format!("{what} did not complete")).at(pi))),
                };
                match r {
                    Err(_) => {
                        rejected = true;
                        if !case.read_only {
                            // C11 owns "discard returns Ok for all arguments on a writable device"
                            return Err(Violation::new(Rule::DiscardErr, format!("{what} failed")).at(pi));
                        }
                    }
                    Ok(()) => {
                        if case.read_only {
                            return Err(own(Violation::new(Rule::Validation, format!("{what} must be rejected but returned Ok")).at(pi)));
                        }
                        model.discard(p.off, p.len);
                    }
                }
            }
        }
        if rejected {
            out.rejected += 1;
        }
        // a rejected call, and a read or write of nothing (whatever it returns), has no effect
        let no_effect = rejected || (p.len == 0 && p.call != "discard");
        if no_effect {
            let how = if rejected { "was rejected" } else { "transfers nothing" };
            if let Some(req) = modifying_since(world, log0) {
                return Err(own(Violation::new(Rule::SideEffect, format!("{what} {how} but sent a modifying request to the backend: {req}")).at(pi)));
            }
            if dev.need_flush_meta() != nf0 {
                return Err(own(Violation::new(Rule::SideEffect, format!("{what} {how} but changed need_flush_meta() from {nf0} to {}", !nf0)).at(pi)));
            }
        }
        if case.read_only {
            if let Some(req) = modifying_since(world, log0) {
                return Err(own(Violation::new(Rule::RoWrite, format!("{what}: a read-only device sent {req}")).at(pi)));
            }
        }
        if small || pi + 1 == case.probes.len() {
            let got = sweep(world, &mut sched, &dev, vsize, bs as usize, cs, pi).map_err(|v| v.at(pi))?;
            let readable = got.len() - got.len() % bs as usize;
            if let Some((boff, exp, g)) = model.first_mismatch(0, &got[..readable]) {
                let rule = if rejected { Rule::SideEffect } else { Rule::Frame };
                let v = Violation::new(rule, format!("after {what}: guest offset {boff} holds {g}, expected {exp}")).at(pi);
                return Err(if rejected { own(v) } else { v });
            }
        }
    }
    drop(dev);
    Ok(())
}

struct ValDomain;

impl Domain for ValDomain {
    fn name(&self) -> &'static str {
        "probes"
    }
    fn cases(&self, tier: Tier) -> u64 {
        match tier {
            Tier::Quick => 6_000,
            Tier::Thorough => 250_000,
        }
    }
    fn strategy(&self, _tier: Tier) -> BoxedStrategy<RawCase> {
        raw_strategy(16, profile().max_ops + 24, 0, 8).boxed()
    }
    fn decode(&self, raw: &RawCase, _excl: &Exclusions) -> Value {
        serde_json::to_value(decode(raw)).unwrap()
    }
    fn run(&self, case: &Value, _excl: &Exclusions) -> CaseResult {
        let c: ValCase = serde_json::from_value(case.clone()).unwrap();
        let out = run_val(&c);
        let verdict = match (out.violation, out.inconclusive) {
            (Some(v), _) => {
                if v.has_tag("c13") {
                    Verdict::Violation(v)
                } else {
                    Verdict::Foreign(v)
                }
            }
            (None, Some(m)) => Verdict::Inconclusive(m),
            _ => Verdict::Pass,
        };
        let mut classes = out.classes;
        classes.push(if c.read_only { "device:read_only".into() } else { "device:writable".into() });
        if c.layers.len() > 1 {
            classes.push("device:top_of_chain".into());
        }
        CaseResult {
            verdict,
            nontrivial: out.boundary > 0 && out.rejected > 0,
            classes,
            excluded: vec![],
            counters: vec![("probes".into(), c.probes.len() as u64), ("rejected_calls".into(), out.rejected as u64)],
        }
    }
}

impl Prop for C13 {
    fn id(&self) -> &'static str {
        "C13"
    }
    fn level(&self) -> &'static str {
        "exploration"
    }
    fn rule_text(&self) -> String {
        "Generated: a valid history creates state (writes, discards, flushes on built or formatted images, optional backing \
         chain), then up to 24 probes read_at / write_at / discard with offsets from boundary classes (0, block size, last block, \
         end, end+-1, beyond the end, unaligned, cluster boundaries, 2^63, u64::MAX neighbourhood) x lengths (0, 1, bs-1, bs, bs+1, \
         cluster, to the end, past the end, several clusters, up to 4 MiB; discard also u64::MAX) on a writable or a read-only \
         device, for every block size. Oracle: an independent expected(call, offset, len, virtual size, block size, read-only): \
         Err for unaligned arguments, writes beyond the end, reads starting at/after the end, writes/discards on read-only \
         devices; the clamped count (rounded down to a block) and correct data for reads crossing the end; either Ok or Err for \
         zero-length calls; never a panic or arithmetic overflow (build has overflow checks on). After every rejected call: no \
         write/zero/punch request was sent, need_flush_meta() is unchanged, and a sweep equals the reference disk. \
         Non-trivial: the case contains a probe in a boundary class and at least one call was rejected. counters.probes = calls."
            .into()
    }
    fn assumptions(&self) -> Vec<String> {
        vec![
            "the harness is built with overflow checks and debug assertions enabled, so arithmetic overflow surfaces as a panic".into(),
            "buffers are real memory, so lengths are bounded by 4 MiB".into(),
        ]
    }
    fn domains(&self) -> Vec<Box<dyn Domain>> {
        vec![Box::new(ValDomain)]
    }
}
