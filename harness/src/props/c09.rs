//! C09 qcow2 specification conformance: reads foreign images, formats valid ones
use crate::case::*;
use crate::engine::*;
use crate::exec::guarded;
use crate::gen::{self, raw_strategy, Profile, RawCase, Src};
use crate::model::chain_content;
use crate::runner::*;
use crate::sim::{ABuf, World};
use crate::spec::builder::CKind;
use crate::spec::checker::{self, Mode};
use crate::spec::{layout, reader};
use proptest::strategy::{BoxedStrategy, Strategy};
use qcow2_rs::dev::Qcow2Info;
use qcow2_rs::meta::{MappingSource, Qcow2Header};
use serde::{Deserialize, Serialize};
use serde_json::Value;

pub struct C09;

// ---------------------------------------------------------------------------------------
// G1: foreign images
// ---------------------------------------------------------------------------------------

#[derive(Clone, Debug, Serialize, Deserialize)]
pub struct ForeignCase {
    pub layers: Vec<LayerSpec>,
    pub params: DevParams,
    pub read_only: bool,
    /// read pattern choices
    pub reads: Vec<u16>,
}

fn foreign_profile() -> Profile {
    Profile {
        formatted_pct: 0,
        depth_weights: [55, 30, 10, 5],
        kind_weights: [22, 28, 10, 10, 30],
        default_cache_pct: 50,
        ..Profile::default()
    }
}

fn v(rule: Rule, msg: String) -> Violation {
    Violation::new(rule, msg)
}

fn run_foreign(case: &ForeignCase) -> (Option<Violation>, Option<String>, Vec<String>, bool) {
    let mut classes = Vec::new();
    let layers = match build_layers(&case.layers) {
        Ok(l) => l,
        Err(e) => return (None, Some(e.msg), classes, false),
    };
    // self-validation of the independent implementation: reader(builder) == truth, checker accepts
    let mut below: Option<Vec<u8>> = None;
    for i in (0..case.layers.len()).rev() {
        let rep = checker::check(&layers.bytes[i], Mode::Strict);
        if !rep.ok(Mode::Strict) {
            return (None, Some(format!("harness self-check: built layer {i} fails its own strict checker: {}", rep.summary(Mode::Strict))), classes, false);
        }
        let content = match reader::read_guest(&layers.bytes[i], below.as_deref()) {
            Ok(c) => c,
            Err(e) => return (None, Some(format!("harness self-check: independent reader failed on layer {i}: {e}")), classes, false),
        };
        let expect = chain_content(&case.layers, &layers.truths, i);
        if content != expect {
            return (None, Some(format!("harness self-check: independent reader and builder ground truth disagree on layer {i}")), classes, false);
        }
        below = Some(content);
    }
    let truth = layers.truths[0].as_ref().unwrap();
    let content = chain_content(&case.layers, &layers.truths, 0);
    let has_backing = case.layers.len() > 1;
    let cs = truth.cluster_size;
    let vsize = truth.vsize;

    let mut nontrivial_features = 0;
    {
        let kinds: std::collections::BTreeSet<String> = truth.kinds.iter().map(|k| format!("{:?}", std::mem::discriminant(k))).collect();
        if kinds.len() >= 2 {
            nontrivial_features += 1;
            classes.push("two_or_more_cluster_kinds".into());
        }
        if let LayerSpec::Built(s) = &case.layers[0] {
            if s.version == 2 {
                classes.push("v2".into());
                nontrivial_features += 1;
            }
            if s.gap_every > 0 || !s.order.is_empty() {
                classes.push("fragmented_placement".into());
                nontrivial_features += 1;
            }
            if s.l1_extra > 0 {
                classes.push("l1_larger_than_needed".into());
            }
            if s.ext_unknown.is_some() || s.ext_feature_table {
                classes.push("header_extensions".into());
            }
        }
        if has_backing {
            classes.push("backing".into());
            nontrivial_features += 1;
        }
        let cb = cs.trailing_zeros();
        for g in 0..truth.kinds.len() {
            if let (CKind::Compressed(_), Some(o), Some(l)) = (truth.kinds[g], truth.host[g], truth.comp_len[g]) {
                let r = layout::compressed_host_clusters(o, l, cb);
                if r.start() != r.end() {
                    classes.push("compressed_straddles_host_cluster".into());
                    nontrivial_features += 1;
                    break;
                }
            }
        }
        classes.push(format!("cluster_bits:{}", cb));
        classes.push(format!("refcount_order:{}", case.layers[0].refcount_order()));
    }

    // open with default parameters and with the generated ones
    let defaults = DevParams {
        bs_bits: 9,
        l2: None,
        rb: None,
    };
    for (pname, params) in [("default", &defaults), ("custom", &case.params)] {
        let world = World::new();
        for (i, b) in layers.bytes.iter().enumerate() {
            world.add_file(&layer_name(i), b.clone());
        }
        let dev = match open_chain(&world, 0, params, case.read_only) {
            Ok(Ok(d)) => d,
            Ok(Err(e)) => return (Some(v(Rule::ApiErr, format!("valid image does not open with {pname} parameters {params:?}: {e}")).tag("open")), None, classes, false),
            Err(p) => {
                return (
                    Some(v(Rule::Panic, format!("opening a valid image with {pname} parameters {params:?} panicked: {p}")).tag("open").tag(format!("panic:{}", panic_site(&p)))),
                    None,
                    classes,
                    false,
                )
            }
        };
        let mut sched = Sched::new(None);
        // mapping of every guest cluster
        for g in 0..truth.kinds.len() {
            let goff = (g * cs) as u64;
            let m = match drive(&world, &mut sched, dev.get_mapping(goff)) {
                Driven::Done(Ok(m)) => m,
                Driven::Done(Err(e)) => return (Some(v(Rule::ApiErr, format!("get_mapping(cluster {g}) failed ({pname} parameters): {e:?}")).tag("get_mapping")), None, classes, false),
                Driven::Panic(p) => return (Some(v(Rule::Panic, format!("get_mapping(cluster {g}) panicked: {p}")).tag(format!("panic:{}", panic_site(&p)))), None, classes, false),
                _ => return (Some(v(Rule::Deadlock, format!("get_mapping(cluster {g}) did not complete"))), None, classes, false),
            };
            let (src, off, clen): (MappingSource, Option<u64>, Option<usize>) = match truth.kinds[g] {
                CKind::Unalloc => {
                    if has_backing {
                        (MappingSource::Backing, Some(goff), None)
                    } else {
                        (MappingSource::Unallocated, Some(0), None)
                    }
                }
                CKind::Data(..) => (MappingSource::DataFile, truth.host[g], None),
                CKind::ZeroFlag => (MappingSource::Zero, None, None),
                CKind::ZeroPrealloc => (MappingSource::Zero, truth.host[g], None),
                CKind::Compressed(_) => (MappingSource::Compressed, truth.host[g], truth.comp_len[g].map(|l| l as usize)),
            };
            if m.source != src || m.cluster_offset != off || m.compressed_length != clen {
                let mut vi = v(
                    Rule::MappingKind,
                    format!(
                        "get_mapping(cluster {g}) = {:?}/{:?}/{:?} with {pname} parameters, the image says {:?}/{:?}/{:?}",
                        m.source, m.cluster_offset, m.compressed_length, src, off, clen
                    ),
                );
                vi.cluster = Some(g);
                return (Some(vi), None, classes, false);
            }
        }
        // reads: whole sweep with varying chunk sizes, then generated sub-ranges
        let bs = params.bs();
        if vsize % bs as u64 == 0 {
            match sweep(&world, &mut sched, &dev, vsize, bs, cs, case.reads.first().copied().unwrap_or(0) as usize) {
                Ok(got) => {
                    if got != content {
                        let first = got.iter().zip(content.iter()).position(|(a, b)| a != b).unwrap_or(0);
                        let b = first / 512 * 512;
                        let mut vi = v(
                            Rule::ReadData,
                            format!(
                                "read_at with {pname} parameters: guest offset {b} (cluster {}) holds {}, the image says {}",
                                b / cs,
                                crate::pat::describe(&got[b..b + 512]),
                                crate::pat::describe(&content[b..b + 512])
                            ),
                        );
                        vi.cluster = Some(b / cs);
                        return (Some(vi), None, classes, false);
                    }
                }
                Err(vi) => return (Some(vi), None, classes, false),
            }
            let blocks = vsize / bs as u64;
            for pair in case.reads.chunks(2).skip(1).take(6) {
                if pair.len() < 2 {
                    break;
                }
                let start = gen::pick1(pair[0], blocks as usize) as u64;
                let n = 1 + gen::pick1(pair[1], std::cmp::min(blocks - start, 3 * (cs as u64 / bs as u64) + 2) as usize) as u64;
                let (off, len) = (start * bs as u64, (n * bs as u64) as usize);
                let mut buf = ABuf::new(len, crate::pat::POISON);
                match drive(&world, &mut sched, dev.read_at(&mut buf, off)) {
                    Driven::Done(Ok(k)) if k == len => {
                        if buf[..] != content[off as usize..off as usize + len] {
                            return (Some(v(Rule::ReadData, format!("read_at(off={off}, len={len}) with {pname} parameters differs from the image content"))), None, classes, false);
                        }
                    }
                    Driven::Done(Ok(k)) => return (Some(v(Rule::ReadLen, format!("read_at(off={off}, len={len}) returned {k}"))), None, classes, false),
                    Driven::Done(Err(e)) => return (Some(v(Rule::ApiErr, format!("read_at(off={off}, len={len}) failed: {e:?}")).tag("read")), None, classes, false),
                    Driven::Panic(p) => return (Some(v(Rule::Panic, format!("read_at(off={off}, len={len}) panicked: {p}")).tag(format!("panic:{}", panic_site(&p)))), None, classes, false),
                    _ => return (Some(v(Rule::Deadlock, "read_at did not complete".into())), None, classes, false),
                }
            }
        }
        // request log: reading never modifies anything
        let mut st = SeqStats::default();
        if let Err(vi) = log_monitors(&world, 0, bs, true, false, &mut st) {
            return (Some(vi), None, classes, false);
        }
    }
    (None, None, classes, nontrivial_features > 0)
}

struct ForeignDomain;

impl Domain for ForeignDomain {
    fn name(&self) -> &'static str {
        "foreign"
    }
    fn cases(&self, tier: Tier) -> u64 {
        match tier {
            Tier::Quick => 4_000,
            Tier::Thorough => 150_000,
        }
    }
    fn strategy(&self, _tier: Tier) -> BoxedStrategy<RawCase> {
        raw_strategy(24, 0, 0, 16).boxed()
    }
    fn decode(&self, raw: &RawCase, _excl: &Exclusions) -> Value {
        let p = foreign_profile();
        let (layers, params, _max_bs, used) = gen::gen_layers_params(raw, &p);
        let mut s = Src::new(&raw.head[std::cmp::min(used, raw.head.len())..]);
        serde_json::to_value(ForeignCase {
            layers,
            params,
            read_only: s.chance(1, 2),
            reads: raw.extra.clone(),
        })
        .unwrap()
    }
    fn run(&self, case: &Value, _excl: &Exclusions) -> CaseResult {
        let c: ForeignCase = serde_json::from_value(case.clone()).unwrap();
        let (viol, inconclusive, classes, nt) = run_foreign(&c);
        let verdict = match (viol, inconclusive) {
            (Some(v), _) => Verdict::Violation(v),
            (None, Some(m)) => Verdict::Inconclusive(m),
            _ => Verdict::Pass,
        };
        CaseResult {
            verdict,
            nontrivial: nt,
            classes,
            excluded: vec![],
            counters: vec![],
        }
    }
}

// ---------------------------------------------------------------------------------------
// G2: formatter + derived geometry
// ---------------------------------------------------------------------------------------

#[derive(Clone, Debug, Serialize, Deserialize)]
pub struct FormatCase {
    pub size: u64,
    pub cluster_bits: u8,
    pub refcount_order: u8,
    pub bs_bits: u8,
    pub open_params: DevParams,
}

fn gen_format(raw: &RawCase) -> FormatCase {
    let mut s = Src::new(&raw.head);
    let cb = 9 + s.pick(13) as u8;
    let cs = 1u64 << cb;
    let ro = s.pick(7) as u8;
    let bs_bits = 9 + s.pick((std::cmp::min(12, cb) - 9 + 1) as usize) as u8;
    let unit = 1u64 << bs_bits;
    let size = match s.weighted(&[15, 20, 25, 20, 20]) {
        0 => unit * (1 + s.pick(8) as u64),
        1 => cs * (1 + s.pick(64) as u64),
        2 => cs * (1 + s.pick(64) as u64) + unit * (1 + s.pick(((cs / unit) as usize).saturating_sub(1).max(1)) as u64) % cs.max(unit),
        3 => (s.range(1 << 20, 1 << 36) / unit) * unit,
        _ => (s.range(1 << 36, 1 << 46) / unit) * unit,
    };
    // the L1 table may not exceed 32 MiB: that bounds the virtual size per cluster size
    let max_size = (4u64 << 20).saturating_mul(cs / 8).saturating_mul(cs);
    let size = std::cmp::min(size, max_size);
    let size = std::cmp::max(size - size % unit, unit);
    let open_params = gen::gen_params(&mut s, cb, bs_bits, 40);
    FormatCase {
        size,
        cluster_bits: cb,
        refcount_order: ro,
        bs_bits,
        open_params,
    }
}

fn run_format(c: &FormatCase) -> Result<bool, Violation> {
    let layer = LayerSpec::Formatted {
        cluster_bits: c.cluster_bits,
        refcount_order: c.refcount_order,
        vsize: c.size,
        fmt_bs_bits: c.bs_bits,
    };
    // independent arithmetic: clusters of header + refcount table + one refcount block + L1
    let cs0 = 1u64 << c.cluster_bits;
    let rbe0 = (cs0 * 8) >> c.refcount_order;
    let l1_bytes = c.size.div_ceil(cs0).div_ceil(cs0 / 8) * 8;
    let rt_bytes = c.size.div_ceil(rbe0 * cs0) * 8;
    let meta_clusters = 2 + rt_bytes.div_ceil(cs0).max(1) + l1_bytes.div_ceil(cs0).max(1);
    let layers = build_layers(std::slice::from_ref(&layer));
    if let Err(e) = &layers {
        if e.rule == Rule::Setup && meta_clusters + 2 >= rbe0 && e.msg.contains("one refcount block") {
            // refused with the formatter's stated limit (single refcount block)
            return Ok(false);
        }
    }
    let layers = layers.map_err(|mut e| {
        if e.rule == Rule::Setup {
            e.rule = Rule::ApiErr;
        }
        e.msg = format!("format_qcow2(size={}, cluster_bits={}, refcount_order={}, block size {}): {}", c.size, c.cluster_bits, c.refcount_order, 1 << c.bs_bits, e.msg);
        e
    })?;
    let bytes = &layers.bytes[0];
    let rep = checker::check(bytes, Mode::Strict);
    if !rep.ok(Mode::Strict) {
        return Err(v(
            Rule::CheckCorrupt,
            format!(
                "format_qcow2(size={}, cluster_bits={}, refcount_order={}, block size {}) is not a valid image: {}",
                c.size,
                c.cluster_bits,
                c.refcount_order,
                1 << c.bs_bits,
                rep.summary(Mode::Strict)
            ),
        ));
    }
    let h = rep.header.as_ref().unwrap();
    let cs = 1u64 << c.cluster_bits;
    // specification formulas
    let l1_needed = c.size.div_ceil(cs).div_ceil(cs / 8);
    if h.version != 3 || h.cluster_bits != c.cluster_bits as u32 || h.size != c.size || h.refcount_order != c.refcount_order as u32 {
        return Err(v(Rule::Validation, format!("formatted header fields {:?} do not match the request {c:?}", (h.version, h.cluster_bits, h.size, h.refcount_order))));
    }
    if (h.l1_size as u64) < l1_needed {
        return Err(v(Rule::Validation, format!("formatted image: l1_size {} is smaller than the {} entries the virtual size needs", h.l1_size, l1_needed)));
    }
    // the refcount table must be able to describe the whole file as formatted
    let file_clusters = (bytes.len() as u64).div_ceil(cs);
    if rep.covered < file_clusters {
        return Err(v(Rule::Validation, format!("formatted image: refcount structures cover {} clusters, the file has {}", rep.covered, file_clusters)));
    }
    // independent reader: all zeros
    if c.size <= (32 << 20) {
        let content = reader::read_guest(bytes, None).map_err(|e| v(Rule::Validation, format!("independent reader rejects the formatted image: {e}")))?;
        if content.len() as u64 != c.size || content.iter().any(|b| *b != 0) {
            return Err(v(Rule::Validation, "formatted image does not read as zeros of the virtual size".into()));
        }
    } else if !rep.l2.is_empty() {
        return Err(v(Rule::Validation, "freshly formatted image maps guest clusters".into()));
    }
    // derived geometry of the library vs formulas
    let lh = Qcow2Header::from_buf(&bytes[..std::cmp::min(bytes.len(), 4096)]).map_err(|e| v(Rule::ApiErr, format!("from_buf rejects the formatter's own output: {e:?}")))?;
    for params in [
        DevParams {
            bs_bits: 9,
            l2: None,
            rb: None,
        },
        c.open_params.clone(),
    ] {
        let info = guarded(|| Qcow2Info::new(&lh, &params.to_lib(false)))
            .map_err(|p| Violation::new(Rule::Panic, format!("Qcow2Info::new panicked for {params:?} on cluster_bits {}: {p}", c.cluster_bits)))?
            .map_err(|e| v(Rule::ApiErr, format!("Qcow2Info::new failed for legal parameters {params:?}: {e:?}")))?;
        let exp = (cs as usize, c.cluster_bits as usize, (cs / 8) as usize, ((cs * 8) >> c.refcount_order) as usize, c.size, c.refcount_order);
        let got = (info.cluster_size(), info.cluster_bits(), info.l2_entries(), info.rb_entries(), info.virtual_size(), info.refcount_order());
        if got != exp {
            return Err(v(Rule::Validation, format!("derived geometry (cluster size, bits, l2 entries, refblock entries, size, order) = {:?}, formulas give {:?}", got, exp)));
        }
        for off in [0u64, 1, cs - 1, cs, 3 * cs + 17] {
            if info.in_cluster_offset(off) as u64 != off % cs {
                return Err(v(Rule::Validation, format!("in_cluster_offset({off}) = {}", info.in_cluster_offset(off))));
            }
        }
        // the formatted image opens and reads zeros with these parameters
        let world = World::new();
        world.add_file(&layer_name(0), bytes.clone());
        match open_chain(&world, 0, &params, false) {
            Ok(Ok(dev)) => {
                let mut sched = Sched::new(None);
                let n = std::cmp::min(c.size, 4 * cs.max(4096)) as usize;
                let n = n - n % params.bs();
                if n > 0 {
                    let mut buf = ABuf::new(n, crate::pat::POISON);
                    match drive(&world, &mut sched, dev.read_at(&mut buf, 0)) {
                        Driven::Done(Ok(k)) if k == n && buf.iter().all(|b| *b == 0) => {}
                        Driven::Done(r) => return Err(v(Rule::ReadData, format!("fresh formatted image: read_at(0, {n}) -> {:?} / not zeros", r.map_err(|e| format!("{e:?}"))))),
                        Driven::Panic(p) => return Err(Violation::new(Rule::Panic, format!("read of a fresh formatted image panicked: {p}"))),
                        _ => return Err(v(Rule::Deadlock, "read did not complete".into())),
                    }
                }
            }
            Ok(Err(e)) => return Err(v(Rule::ApiErr, format!("formatted image does not open with {params:?}: {e}")).tag("open")),
            Err(p) => return Err(Violation::new(Rule::Panic, format!("opening a formatted image with {params:?} panicked: {p}")).tag("open")),
        }
    }
    Ok(c.size % cs != 0 || c.cluster_bits < 12 || c.refcount_order != 4 || c.size > (1 << 36))
}

struct FormatDomain;

impl Domain for FormatDomain {
    fn name(&self) -> &'static str {
        "format"
    }
    fn cases(&self, tier: Tier) -> u64 {
        match tier {
            Tier::Quick => 3_000,
            Tier::Thorough => 100_000,
        }
    }
    fn strategy(&self, _tier: Tier) -> BoxedStrategy<RawCase> {
        raw_strategy(0, 0, 0, 0).boxed()
    }
    fn decode(&self, raw: &RawCase, _excl: &Exclusions) -> Value {
        serde_json::to_value(gen_format(raw)).unwrap()
    }
    fn run(&self, case: &Value, _excl: &Exclusions) -> CaseResult {
        let c: FormatCase = serde_json::from_value(case.clone()).unwrap();
        let (verdict, nt) = match run_format(&c) {
            Ok(nt) => (Verdict::Pass, nt),
            Err(v) => (Verdict::Violation(v), false),
        };
        CaseResult {
            verdict,
            nontrivial: nt,
            classes: vec![
                format!("cluster_bits:{}", c.cluster_bits),
                format!("refcount_order:{}", c.refcount_order),
                format!("bs_bits:{}", c.bs_bits),
                if c.size % (1u64 << c.cluster_bits) != 0 { "size_not_cluster_multiple".into() } else { "size_cluster_multiple".into() },
                if c.size >= (1 << 36) { "size_ge_64GiB".into() } else { "size_lt_64GiB".into() },
            ],
            excluded: vec![],
            counters: vec![],
        }
    }
}

/// Sequential histories on v2 / extension-bearing images: keeps the regression inputs of the
/// header-parsing fixes replayable (domain name "seq")
struct SeqReplay;
impl Domain for SeqReplay {
    fn name(&self) -> &'static str {
        "seq"
    }
    fn cases(&self, _tier: Tier) -> u64 {
        0
    }
    fn strategy(&self, _tier: Tier) -> BoxedStrategy<RawCase> {
        raw_strategy(0, 0, 0, 0).boxed()
    }
    fn decode(&self, _raw: &RawCase, _excl: &Exclusions) -> Value {
        Value::Null
    }
    fn run(&self, case: &Value, _excl: &Exclusions) -> CaseResult {
        let case = match super::common::case_from_value(case) {
            Ok(c) => c,
            Err(r) => return r,
        };
        let (_run, verdict) = super::common::run_owned(&case, &super::c01::cfg(), &|v| v.has_tag("open") || matches!(v.rule, Rule::ReadData | Rule::ReadLen | Rule::MappingKind));
        CaseResult {
            verdict,
            nontrivial: false,
            classes: vec![],
            excluded: vec![],
            counters: vec![],
        }
    }
}

impl Prop for C09 {
    fn id(&self) -> &'static str {
        "C09"
    }
    fn level(&self) -> &'static str {
        "exploration"
    }
    fn rule_text(&self) -> String {
        "Domain foreign: images generated by an independent builder over the supported feature set (v2/v3, cluster sizes 512 B..2 MiB, \
         refcount widths 1..64 bit, data / zero flag / zero + preallocation / deflate-compressed clusters packed at byte or sector \
         granularity incl. ones straddling host clusters, arbitrary table placement with gaps, oversized L1, header extensions, \
         backing chains). Each is opened read-only or writable with default and with generated custom parameters; for every guest \
         cluster get_mapping (kind, host offset, compressed length) and read_at (whole sweep in varying chunk sizes + generated \
         sub-ranges, poisoned buffers) must equal the builder's ground truth, which is itself cross-checked against the independent \
         reader and checker in every case; no modifying request may be issued. Domain format: \
         format_qcow2 over sizes (tiny, not cluster multiples, up to 64 TiB) x cluster_bits 9..21 x refcount_order 0..6 x block \
         sizes: output must pass the independent strict checker, header fields and coverage must satisfy the specification's \
         formulas, Qcow2Info geometry must equal independent formulas, the image must open (default + custom parameters), read \
         zeros and pass check(). Non-trivial: (foreign) >= 2 cluster kinds or fragmentation / v2 / backing / straddling \
         compressed data; (format) size not a cluster multiple, small clusters, non-default refcount width or huge size."
            .into()
    }
    fn assumptions(&self) -> Vec<String> {
        vec![
            "the builder and the library could share a misreading of the specification; mitigated by writing the builder from the specification text and cross-checking builder, checker and reader against each other in every case".into(),
            "block size and custom slice sizes do not exceed the smallest cluster size of the chain; virtual size is a multiple of the block size".into(),
        ]
    }
    fn domains(&self) -> Vec<Box<dyn Domain>> {
        vec![Box::new(ForeignDomain), Box::new(FormatDomain), Box::new(SeqReplay)]
    }
}
