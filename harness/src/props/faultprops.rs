//! C17 Backend errors are reported and recoverable by retrying the flush
use crate::fault::*;
use crate::gen::{self, raw_strategy, Profile, RawCase, Src};
use crate::runner::*;
use crate::sim::{FaultPlan, ReqKind};
use proptest::strategy::{BoxedStrategy, Strategy};
use serde_json::Value;

fn profile() -> Profile {
    Profile {
        max_ops: 14,
        op_weights: [52, 12, 14, 13, 3, 6, 0],
        cb_weights: [30, 25, 20, 20, 5, 0],
        max_cluster_bits: 14,
        max_clusters: 24,
        depth_weights: [75, 20, 4, 1],
        sched_pct: 20,
        wide_l1_pct: 25,
        // headers listing fewer L1 entries than the virtual size needs (extended in place by the
        // first write beyond them: a header rewrite that can fail)
        l1_short_pct: 20,
        ..Profile::default()
    }
}

struct FaultDomain {
    name: &'static str,
    quick: u64,
    thorough: u64,
    enumerate: bool,
}

impl Domain for FaultDomain {
    fn name(&self) -> &'static str {
        self.name
    }
    fn cases(&self, tier: Tier) -> u64 {
        match tier {
            Tier::Quick => self.quick,
            Tier::Thorough => self.thorough,
        }
    }
    fn strategy(&self, _tier: Tier) -> BoxedStrategy<RawCase> {
        raw_strategy(16, profile().max_ops, 100, 24).boxed()
    }
    fn decode(&self, raw: &RawCase, _excl: &Exclusions) -> Value {
        let mut seq = gen::decode_seq(raw, &profile()).case;
        // L1 growth that needs more clusters than the short table owns is a known finding of C12
        if super::c12::l1_short_overflows(&seq) {
            if let crate::case::LayerSpec::Built(b) = &mut seq.layers[0] {
                b.l1_short = false;
                seq.excluded.push(super::c12::K_L1_GROWTH.to_string());
            }
        }
        let mut s = Src::new(&raw.extra);
        let mode = if self.enumerate {
            FaultMode::EnumerateSingles {
                cap: 150,
                applied_but_failed: s.chance(1, 3),
            }
        } else {
            let mut p = FaultPlan::default();
            match s.weighted(&[35, 15, 15, 15, 20]) {
                0 => {
                    // a few failing ordinals
                    let n = 1 + s.pick(4);
                    for _ in 0..n {
                        p.fail_ordinals.push(s.pick(120) as u64);
                    }
                    p.fail_ordinals.sort_unstable();
                    p.fail_ordinals.dedup();
                }
                1 => p.fail_kind = Some(ReqKind::Fsync),
                2 => p.punch_unsupported = true,
                3 => {
                    p.fail_kind = Some(ReqKind::Write);
                    p.heal_after = Some(10 + s.pick(60) as u64);
                }
                _ => {
                    // a burst: every request in a window fails
                    let start = s.pick(100) as u64;
                    let len = 1 + s.pick(8) as u64;
                    p.fail_ordinals = (start..start + len).collect();
                }
            }
            p.applied_but_failed = s.chance(1, 3);
            // drawn last so that the cases generated before this class existed stay the same
            if seq.layers.len() > 1 && s.chance(1, 3) {
                let n = 1 + s.pick(3);
                for _ in 0..n {
                    p.back_fail_ordinals.push(s.pick(60) as u64);
                }
                p.back_fail_ordinals.sort_unstable();
                p.back_fail_ordinals.dedup();
            }
            FaultMode::Plan(p)
        };
        serde_json::to_value(FaultCase { seq, mode }).unwrap()
    }
    fn run(&self, case: &Value, _excl: &Exclusions) -> CaseResult {
        let case: FaultCase = match serde_json::from_value(case.clone()) {
            Ok(c) => c,
            Err(e) => {
                return CaseResult {
                    verdict: Verdict::Inconclusive(format!("bad case: {e}")),
                    nontrivial: false,
                    classes: vec![],
                    excluded: vec![],
                    counters: vec![],
                }
            }
        };
        let run = run_fault_case(&case);
        let st = &run.stats;
        let verdict = if let Some(m) = &run.inconclusive {
            Verdict::Inconclusive(m.clone())
        } else {
            match &run.violation {
                None => Verdict::Pass,
                Some(v) => Verdict::Violation(v.clone()),
            }
        };
        let mut classes = Vec::new();
        let mut add = |b: bool, s: &str| {
            if b {
                classes.push(s.to_string());
            }
        };
        add(st.failed_meta_or_fsync > 0, "failed_metadata_or_fsync_request");
        add(st.failed_data > 0, "failed_data_write");
        add(st.failed_read > 0, "failed_read");
        add(st.failed_punch > 0, "failed_or_unsupported_punch");
        add(st.failed_backing > 0, "failed_backing_chain_read");
        add(st.calls_err > 0, "call_returned_err");
        add(st.calls_absorbed > 0, "fault_absorbed_call_ok");
        add(st.open_failed > 0, "open_failed_by_fault");
        add(st.flush_retries > 0, "flush_needed_retry");
        add(st.leaks_tolerated > 0, "leak_tolerated");
        add(st.uncertain_blocks > 0, "failed_write_left_uncertain_blocks");
        add(case.seq.layers.len() > 1, "backing_chain");
        add(matches!(&case.seq.layers[0], crate::case::LayerSpec::Built(b) if b.l1_short), "header_lists_fewer_l1_entries");
        add(
            case.seq.layers[0].vsize().div_ceil(1u64 << (2 * case.seq.layers[0].cluster_bits() as u32 - 3)) > 64,
            "l1_spans_several_blocks",
        );
        CaseResult {
            verdict,
            nontrivial: st.failed_meta_or_fsync > 0 && st.reopen_compares > 0,
            classes,
            excluded: case.seq.excluded.clone(),
            counters: vec![("fault_runs".into(), st.runs), ("faults_injected".into(), st.injected), ("reopen_compares".into(), st.reopen_compares)],
        }
    }
}

pub struct C17;

impl Prop for C17 {
    fn id(&self) -> &'static str {
        "C17"
    }
    fn level(&self) -> &'static str {
        "fault_enumeration"
    }
    fn rule_text(&self) -> String {
        "Domain singles: for each generated history (<= 14 ops) the fault-free run counts the backend requests of the image \
         file; then the history is re-run once per request ordinal (all of them up to 150), failing exactly that request - \
         reads, data writes, metadata writes, hole punches and fsyncs, in both flavours (not applied / applied although reported \
         failed). Domain plans: generated multi-request plans (several ordinals, every fsync fails, punching unsupported, all \
         writes fail until healed, bursts). Oracle: no panic, no hang; a call returns Err only if one of its own requests was \
         failed; after healing flush_meta must return Ok within 8 attempts; then every block must hold the model value \
         (acknowledged writes) or, for blocks of a failed write/discard, the old or the new value - on the live device and \
         after reopen from copied bytes; the independent checker (crash-safe mode) must find no corruption and no under-count \
         (leaks tolerated, counted). evaluations = histories (counters.fault_runs = executions). Non-trivial: a metadata \
         write or an fsync was failed and the reopen comparison ran. Distinct = distinct decoded case."
            .into()
    }
    fn assumptions(&self) -> Vec<String> {
        vec![
            "a failed write is either not applied or fully applied (both flavours generated); partially applied failed writes are not modelled".into(),
            "faults are injected on the image file only (backing files are read-only inputs)".into(),
            "single faults are enumerated exhaustively per history up to 150 requests; multi-fault plans are sampled".into(),
        ]
    }
    fn domains(&self) -> Vec<Box<dyn Domain>> {
        vec![
            Box::new(FaultDomain {
                name: "singles",
                quick: 1_000,
                thorough: 20_000,
                enumerate: true,
            }),
            Box::new(FaultDomain {
                name: "plans",
                quick: 10_000,
                thorough: 150_000,
                enumerate: false,
            }),
        ]
    }
}
