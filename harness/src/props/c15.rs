//! C15 Codec fidelity: headers, table entries, refcount packing, address split
use crate::engine::{Rule, Violation};
use crate::exec::guarded;
use crate::gen::{raw_strategy, RawCase, Src};
use crate::runner::*;
use crate::sim::World;
use crate::spec::layout::*;
use proptest::strategy::{BoxedStrategy, Strategy};
use qcow2_rs::dev::{Qcow2Dev, Qcow2DevParams, Qcow2Info};
use qcow2_rs::meta::{L2Entry, MappingSource, Qcow2FeatureType, Qcow2Header, RefBlock, RefBlockEntry, SplitGuestOffset, Table, TableEntry};
use serde::{Deserialize, Serialize};
use serde_json::{json, Value};

pub struct C15;

fn viol(msg: String) -> Violation {
    Violation::new(Rule::Validation, msg)
}

// ---------------------------------------------------------------------------------------
// headers
// ---------------------------------------------------------------------------------------

#[derive(Clone, Debug, Serialize, Deserialize)]
pub struct HdrCase {
    pub hdr: Hdr,
}

fn gen_hdr(raw: &RawCase) -> Hdr {
    let mut s = Src::new(&raw.head);
    let version = if s.chance(1, 3) { 2 } else { 3 };
    let cb = 9 + s.pick(13) as u32;
    let cs = 1u64 << cb;
    let order = if version == 2 { 4 } else { s.pick(7) as u32 };
    let size = match s.weighted(&[30, 30, 30, 10]) {
        0 => 512 * (1 + s.pick(64) as u64),
        1 => cs * (1 + s.pick(1000) as u64),
        2 => s.range(512, 1 << 40) / 512 * 512,
        _ => s.range(1 << 40, 1 << 50) / 512 * 512,
    };
    let mut exts: Vec<(u32, Vec<u8>)> = Vec::new();
    let mut room = cs as i64 - 112 - 8 - 64;
    let backing = if s.chance(1, 2) {
        let n = 1 + s.pick(std::cmp::min(60, std::cmp::max(room / 4, 1) as usize));
        room -= n as i64;
        Some((0..n).map(|i| b'a' + ((i * 7 + n) % 26) as u8).collect::<Vec<u8>>())
    } else {
        None
    };
    if s.chance(1, 3) && room > 24 {
        exts.push((EXT_BACKING_FMT, b"qcow2".to_vec()));
        room -= 16;
    }
    if s.chance(1, 3) && room > 3 * 48 + 16 {
        let n = 1 + s.pick(3);
        let mut t = Vec::new();
        for i in 0..n {
            let mut e = vec![0u8; 48];
            e[0] = (i % 3) as u8;
            e[1] = (i + s.pick(5)) as u8;
            let name = format!("feature-{}-{}", i, s.pick(100));
            e[2..2 + name.len()].copy_from_slice(name.as_bytes());
            t.extend_from_slice(&e);
        }
        room -= t.len() as i64 + 8;
        exts.push((EXT_FEATURE_TABLE, t));
    }
    let nunk = s.pick(3);
    for i in 0..nunk {
        let len = s.pick(40);
        if room > len as i64 + 16 {
            exts.push((0x1000_0000 + (i as u32) * 77 + s.pick(1000) as u32, (0..len).map(|j| (j * 5 + i + 1) as u8).collect()));
            room -= len as i64 + 16;
        }
    }
    // bitmaps / other known-to-qemu extension types are unknown to the library: included above
    Hdr {
        version,
        backing_file_offset: 0,
        backing_file_size: 0,
        cluster_bits: cb,
        size,
        crypt_method: 0,
        l1_size: s.pick(1 << 16) as u32,
        l1_table_offset: cs * (1 + s.pick(1 << 12) as u64),
        refcount_table_offset: cs * (1 + s.pick(1 << 12) as u64),
        refcount_table_clusters: 1 + s.pick(64) as u32,
        nb_snapshots: 0,
        snapshots_offset: 0,
        incompatible: 0,
        compatible: if version == 3 && s.chance(1, 3) { 1 } else { 0 },
        autoclear: if version == 3 && s.chance(1, 4) { 1 << s.pick(4) } else { 0 },
        refcount_order: order,
        // the specification allows version 3 headers of 104 bytes and longer ones
        header_length: if version == 2 {
            72
        } else {
            match s.weighted(&[60, 15, 25]) {
                0 => 112,
                1 => 104,
                _ => [120u32, 128, 136, 192][s.pick(4)],
            }
        },
        compression_type: 0,
        backing,
        exts,
    }
}

fn feature_entries(d: &[u8]) -> Vec<Vec<u8>> {
    let mut v: Vec<Vec<u8>> = d.chunks(48).map(|c| c.to_vec()).collect();
    v.sort();
    v
}

fn exts_equal(a: &[(u32, Vec<u8>)], b: &[(u32, Vec<u8>)]) -> bool {
    if a.len() != b.len() {
        return false;
    }
    a.iter().zip(b.iter()).all(|(x, y)| {
        x.0 == y.0
            && if x.0 == EXT_FEATURE_TABLE {
                feature_entries(&x.1) == feature_entries(&y.1)
            } else {
                x.1 == y.1
            }
    })
}

fn check_header(h: &Hdr) -> Result<bool, Violation> {
    let bytes = ser_header(h);
    let mut buf = vec![0u8; std::cmp::max(4096, bytes.len().div_ceil(512) * 512)];
    buf[..bytes.len()].copy_from_slice(&bytes);
    let expect = parse_header(&buf).map_err(|e| viol(format!("harness: own header does not parse: {e}")))?;
    let r = guarded(|| Qcow2Header::from_buf(&buf)).map_err(|p| Violation::new(Rule::Panic, format!("from_buf panicked on a valid header: {p}")))?;
    let mut lh = r.map_err(|e| viol(format!("from_buf rejected a valid header ({h:?}): {e:?}")))?;
    macro_rules! same {
        ($name:expr, $a:expr, $b:expr) => {
            if $a != $b {
                return Err(viol(format!("from_buf: field {} is {:?}, header says {:?} ({h:?})", $name, $a, $b)));
            }
        };
    }
    same!("version", lh.version(), expect.version);
    same!("cluster_bits", lh.cluster_bits(), expect.cluster_bits);
    same!("size", lh.size(), expect.size);
    same!("crypt_method", lh.crypt_method(), expect.crypt_method);
    same!("l1_size", lh.l1_table_entries() as u64, expect.l1_size as u64);
    same!("l1_table_offset", lh.l1_table_offset(), expect.l1_table_offset);
    same!("refcount_table_offset", lh.reftable_offset(), expect.refcount_table_offset);
    same!("refcount_table_clusters", lh.reftable_clusters() as u64, expect.refcount_table_clusters as u64);
    same!("refcount_order", lh.refcount_order(), expect.refcount_order);
    same!("nb_snapshots", lh.nb_snapshots(), expect.nb_snapshots);
    same!("header_length", lh.header_length(), expect.header_length);
    same!(
        "backing_filename",
        lh.backing_filename().map(|s| s.as_bytes().to_vec()),
        expect.backing.clone()
    );
    let fmt = expect.exts.iter().find(|e| e.0 == EXT_BACKING_FMT).map(|e| e.1.clone());
    same!("backing_format", lh.backing_format().map(|s| s.as_bytes().to_vec()), fmt);
    for e in expect.exts.iter().filter(|e| e.0 == EXT_FEATURE_TABLE) {
        for ent in e.1.chunks(48) {
            let ty = match ent[0] {
                0 => Qcow2FeatureType::Incompatible,
                1 => Qcow2FeatureType::Compatible,
                2 => Qcow2FeatureType::Autoclear,
                _ => continue,
            };
            let name: Vec<u8> = ent[2..].iter().copied().take_while(|b| *b != 0).collect();
            same!("feature_name", lh.feature_name(ty, ent[1] as u32).map(|s| s.as_bytes().to_vec()), Some(name.clone()));
        }
    }
    // re-serialise and parse with the independent parser
    let out = guarded(|| lh.serialize_to_buf())
        .map_err(|p| Violation::new(Rule::Panic, format!("serialize_to_buf panicked: {p}")))?
        .map_err(|e| viol(format!("serialize_to_buf failed for a parsed header: {e:?} ({h:?})")))?;
    let mut obuf = vec![0u8; std::cmp::max(4096, out.len().div_ceil(512) * 512)];
    obuf[..out.len()].copy_from_slice(&out);
    let back = parse_header(&obuf).map_err(|e| viol(format!("re-serialised header does not parse under the specification: {e} ({h:?})")))?;
    macro_rules! same2 {
        ($name:expr, $a:expr, $b:expr) => {
            if $a != $b {
                return Err(viol(format!(
                    "round trip changed {}: {:?} became {:?} (version {}, {} extensions, backing {:?})",
                    $name,
                    $b,
                    $a,
                    h.version,
                    h.exts.len(),
                    h.backing.as_ref().map(|b| b.len())
                )));
            }
        };
    }
    same2!("version", back.version, expect.version);
    same2!("cluster_bits", back.cluster_bits, expect.cluster_bits);
    same2!("size", back.size, expect.size);
    same2!("l1_size", back.l1_size, expect.l1_size);
    same2!("l1_table_offset", back.l1_table_offset, expect.l1_table_offset);
    same2!("refcount_table_offset", back.refcount_table_offset, expect.refcount_table_offset);
    same2!("refcount_table_clusters", back.refcount_table_clusters, expect.refcount_table_clusters);
    same2!("refcount_order", back.refcount_order, expect.refcount_order);
    same2!("incompatible", back.incompatible, expect.incompatible);
    same2!("compatible", back.compatible, expect.compatible);
    same2!("autoclear", back.autoclear, expect.autoclear);
    same2!("backing name", back.backing, expect.backing);
    if !exts_equal(&back.exts, &expect.exts) {
        return Err(viol(format!(
            "round trip changed the header extensions: {:?} became {:?} (version {})",
            expect.exts.iter().map(|e| (e.0, e.1.len())).collect::<Vec<_>>(),
            back.exts.iter().map(|e| (e.0, e.1.len())).collect::<Vec<_>>(),
            h.version
        )));
    }
    // the library must be able to parse its own output to the same thing
    let again = guarded(|| Qcow2Header::from_buf(&obuf))
        .map_err(|p| Violation::new(Rule::Panic, format!("from_buf panicked on serialize_to_buf output: {p}")))?
        .map_err(|e| viol(format!("from_buf rejected serialize_to_buf output: {e:?}")))?;
    same2!("size (second parse)", again.size(), expect.size);
    same2!("backing name (second parse)", again.backing_filename().map(|s| s.as_bytes().to_vec()), expect.backing);
    Ok(!h.exts.is_empty() || h.backing.is_some() || h.version == 2)
}

struct HdrDomain;

impl Domain for HdrDomain {
    fn name(&self) -> &'static str {
        "header"
    }
    fn cases(&self, tier: Tier) -> u64 {
        match tier {
            Tier::Quick => 20_000,
            Tier::Thorough => 1_000_000,
        }
    }
    fn strategy(&self, _tier: Tier) -> BoxedStrategy<RawCase> {
        raw_strategy(0, 0, 0, 0).boxed()
    }
    fn decode(&self, raw: &RawCase, _excl: &Exclusions) -> Value {
        serde_json::to_value(HdrCase { hdr: gen_hdr(raw) }).unwrap()
    }
    fn run(&self, case: &Value, _excl: &Exclusions) -> CaseResult {
        let c: HdrCase = serde_json::from_value(case.clone()).unwrap();
        let (verdict, nt) = match check_header(&c.hdr) {
            Ok(nt) => (Verdict::Pass, nt),
            Err(v) => (Verdict::Violation(v), false),
        };
        let mut classes = vec![format!("version:{}", c.hdr.version)];
        if c.hdr.backing.is_some() {
            classes.push("backing_name".into());
        }
        for e in &c.hdr.exts {
            classes.push(match e.0 {
                EXT_BACKING_FMT => "ext:backing_format".into(),
                EXT_FEATURE_TABLE => "ext:feature_table".into(),
                _ => "ext:unknown".to_string(),
            });
        }
        CaseResult {
            verdict,
            nontrivial: nt,
            classes,
            excluded: vec![],
            counters: vec![],
        }
    }
}

// ---------------------------------------------------------------------------------------
// L2 entries
// ---------------------------------------------------------------------------------------

#[derive(Clone, Debug, Serialize, Deserialize)]
pub struct L2Case {
    pub cluster_bits: u32,
    pub has_backing: bool,
    pub entry: u64,
    pub guest_off: u64,
    pub class: String,
}

fn info_for(cluster_bits: u32, order: u32, backing: bool, l2: Option<(u8, usize)>, rb: Option<(u8, usize)>, bs_bits: u8, size: u64) -> Result<(Qcow2Header, Qcow2Info), String> {
    let h = Hdr {
        version: 3,
        backing_file_offset: 0,
        backing_file_size: 0,
        cluster_bits,
        size,
        crypt_method: 0,
        l1_size: 1,
        l1_table_offset: 3 << cluster_bits,
        refcount_table_offset: 1 << cluster_bits,
        refcount_table_clusters: 1,
        nb_snapshots: 0,
        snapshots_offset: 0,
        incompatible: 0,
        compatible: 0,
        autoclear: 0,
        refcount_order: order,
        header_length: 112,
        compression_type: 0,
        backing: if backing { Some(b"base.qcow2".to_vec()) } else { None },
        exts: vec![],
    };
    let b = ser_header(&h);
    let mut buf = vec![0u8; 4096];
    buf[..b.len()].copy_from_slice(&b);
    let lh = Qcow2Header::from_buf(&buf).map_err(|e| format!("{e:?}"))?;
    let p = Qcow2DevParams::new(bs_bits, rb, l2, false, false);
    let info = guarded(|| Qcow2Info::new(&lh, &p)).map_err(|p| format!("Qcow2Info::new panicked: {p}"))?.map_err(|e| format!("{e:?}"))?;
    Ok((lh, info))
}

fn gen_l2(raw: &RawCase) -> L2Case {
    let mut s = Src::new(&raw.head);
    let cb = 9 + s.pick(13) as u32;
    let cs = 1u64 << cb;
    let has_backing = s.chance(1, 3);
    let max_cl = (1u64 << (56 - cb)) - 1;
    let cl = match s.weighted(&[30, 30, 20, 20]) {
        0 => 1 + s.pick(64) as u64,
        1 => s.range(1, max_cl),
        2 => max_cl,
        _ => 1u64 << s.pick((56 - cb) as usize),
    };
    let cl = std::cmp::min(std::cmp::max(cl, 1), max_cl);
    let x = 62 - (cb - 8);
    let (entry, class) = match s.weighted(&[8, 22, 12, 12, 26, 20]) {
        0 => (0u64, "unallocated"),
        1 => ((cl << cb) | if s.chance(2, 3) { COPIED } else { 0 }, "standard"),
        2 => (1u64, "zero_flag"),
        3 => ((cl << cb) | 1 | if s.chance(2, 3) { COPIED } else { 0 }, "zero_prealloc"),
        4 => {
            let off = match s.weighted(&[40, 30, 30]) {
                0 => (cl << cb) + s.pick(cs as usize) as u64,
                1 => (cl << cb) + cs - 1 - s.pick(3) as u64,
                _ => s.range(cs, std::cmp::min((1u64 << x) - 1, (1u64 << 56) - 1)),
            };
            let off = std::cmp::min(off, std::cmp::min((1u64 << x) - 1, (1u64 << 56) - 1));
            let nb_max = (1u64 << (cb - 8)) - 1;
            let nb = match s.weighted(&[40, 30, 30]) {
                0 => 0,
                1 => nb_max,
                _ => s.pick(nb_max as usize + 1) as u64,
            };
            (COMPRESSED | (nb << x) | off, "compressed")
        }
        _ => {
            // entries the specification forbids
            match s.pick(4) {
                0 => ((cl << cb) | (1 << (1 + s.pick(8))), "invalid:reserved_low"),
                1 => ((cl << cb) | (1u64 << (56 + s.pick(6))), "invalid:reserved_high"),
                2 if cb > 9 => (((cl << cb) + 512) | COPIED, "invalid:unaligned"),
                _ => (COMPRESSED | COPIED | (cl << cb), "invalid:compressed_copied"),
            }
        }
    };
    L2Case {
        cluster_bits: cb,
        has_backing,
        entry,
        guest_off: (s.pick(1 << 16) as u64) << cb,
        class: class.to_string(),
    }
}

fn check_l2(c: &L2Case) -> Result<(), Violation> {
    let (_h, info) = info_for(c.cluster_bits, 4, c.has_backing, None, None, 9, 1 << 40).map_err(|e| viol(format!("cannot build Qcow2Info: {e}")))?;
    let spec = l2_decode(c.entry, c.cluster_bits, 3);
    let lib = guarded(|| L2Entry::try_from_plain(c.entry, &info)).map_err(|p| Violation::new(Rule::Panic, format!("try_from_plain({:#x}) panicked: {p}", c.entry)))?;
    match (&spec, &lib) {
        (Err(why), Ok(_)) => return Err(viol(format!("L2 entry {:#x} (cluster_bits {}) is forbidden by the specification ({why}) but try_from_plain accepts it", c.entry, c.cluster_bits))),
        (Ok(k), Err(e)) => return Err(viol(format!("L2 entry {:#x} (cluster_bits {}) is valid ({k:?}) but try_from_plain rejects it: {e:?}", c.entry, c.cluster_bits))),
        (Err(_), Err(_)) => return Ok(()),
        _ => {}
    }
    let k = spec.unwrap();
    let e = lib.unwrap();
    let split = SplitGuestOffset(c.guest_off);
    let m = guarded(|| e.into_mapping(&info, &split)).map_err(|p| Violation::new(Rule::Panic, format!("into_mapping({:#x}) panicked: {p}", c.entry)))?;
    let (src, off, clen, copied) = match k {
        L2Kind::Unalloc => {
            if c.has_backing {
                (MappingSource::Backing, Some(c.guest_off), None, false)
            } else {
                (MappingSource::Unallocated, Some(0), None, false)
            }
        }
        L2Kind::Data { off, copied } => (MappingSource::DataFile, Some(off), None, copied),
        L2Kind::Zero { off, copied } => (MappingSource::Zero, if off == 0 { None } else { Some(off) }, None, off != 0 && copied),
        L2Kind::Compressed { off, len, .. } => (MappingSource::Compressed, Some(off), Some(len as usize), false),
    };
    if m.source != src || m.cluster_offset != off || m.compressed_length != clen || m.copied != copied {
        return Err(viol(format!(
            "L2 entry {:#x} (cluster_bits {}, backing {}) decodes to {:?}/{:?}/{:?}/copied={} but the specification says {:?}/{:?}/{:?}/copied={}",
            c.entry, c.cluster_bits, c.has_backing, m.source, m.cluster_offset, m.compressed_length, m.copied, src, off, clen, copied
        )));
    }
    let cb = c.cluster_bits;
    let back = guarded(|| L2Entry::from_mapping(m.clone(), cb)).map_err(|p| Violation::new(Rule::Panic, format!("from_mapping(into_mapping({:#x})) panicked: {p}", c.entry)))?;
    let bits = back.into_plain();
    if bits != c.entry {
        return Err(viol(format!("L2 entry {:#x} (cluster_bits {}) converts back to {:#x}", c.entry, c.cluster_bits, bits)));
    }
    // derived accessors
    let alloc = e.allocation(cb);
    let exp_alloc = match k {
        L2Kind::Unalloc => None,
        L2Kind::Data { off, .. } => Some((off, 1usize)),
        L2Kind::Zero { off, .. } => {
            if off == 0 {
                None
            } else {
                Some((off, 1usize))
            }
        }
        L2Kind::Compressed { off, len, .. } => {
            let r = compressed_host_clusters(off, len, cb);
            Some((r.start() << cb, (r.end() - r.start() + 1) as usize))
        }
    };
    if alloc != exp_alloc {
        return Err(viol(format!("L2 entry {:#x} (cluster_bits {}): allocation() = {:?}, specification says {:?}", c.entry, cb, alloc, exp_alloc)));
    }
    Ok(())
}

struct L2Domain;

impl Domain for L2Domain {
    fn name(&self) -> &'static str {
        "l2entry"
    }
    fn cases(&self, tier: Tier) -> u64 {
        match tier {
            Tier::Quick => 60_000,
            Tier::Thorough => 3_000_000,
        }
    }
    fn strategy(&self, _tier: Tier) -> BoxedStrategy<RawCase> {
        raw_strategy(0, 0, 0, 0).boxed()
    }
    fn decode(&self, raw: &RawCase, _excl: &Exclusions) -> Value {
        serde_json::to_value(gen_l2(raw)).unwrap()
    }
    fn run(&self, case: &Value, _excl: &Exclusions) -> CaseResult {
        let c: L2Case = serde_json::from_value(case.clone()).unwrap();
        let verdict = match check_l2(&c) {
            Ok(()) => Verdict::Pass,
            Err(v) => Verdict::Violation(v),
        };
        CaseResult {
            verdict,
            nontrivial: c.class != "unallocated",
            classes: vec![format!("class:{}", c.class), format!("cluster_bits:{}", c.cluster_bits)],
            excluded: vec![],
            counters: vec![],
        }
    }
}

// ---------------------------------------------------------------------------------------
// refcount packing (exhaustive over a 512-byte slice)
// ---------------------------------------------------------------------------------------

fn raw_of(rb: &RefBlock) -> Vec<u8> {
    unsafe { std::slice::from_raw_parts(rb.as_ptr(), rb.byte_size()).to_vec() }
}

fn refcount_exhaustive() -> FixedResult {
    let mut evals = 0u64;
    let mut nt = 0u64;
    let (_h, info) = info_for(16, 4, false, None, None, 9, 1 << 30).unwrap();
    let mut violation = None;
    'outer: for order in 0u32..=6 {
        let size = 512usize;
        let entries = (size * 8) >> order;
        let max = rc_max(order);
        let mut rb = RefBlock::new(order as u8, size, Some(0));
        let mut mirror = vec![0u8; size];
        if rb.entries() != entries {
            violation = Some(viol(format!("RefBlock(order {order}, 512 bytes).entries() = {}, expected {entries}", rb.entries())));
            break;
        }
        // background: neighbours hold non-zero values so that clobbering is visible
        for i in 0..entries {
            let v = if max == 1 { (i % 2) as u64 } else { (i as u64 * 7 + 1) % (std::cmp::min(max, 251) + 1) };
            let r = guarded(|| rb.set(i, RefBlockEntry::try_from_plain(v, &info).unwrap()));
            if let Err(p) = r {
                violation = Some(Violation::new(Rule::Panic, format!("RefBlock::set(order {order}, idx {i}, {v}) panicked: {p}")));
                break 'outer;
            }
            rc_set(&mut mirror, order, i as u64, v);
        }
        for i in 0..entries {
            let vals: Vec<u64> = if max == 1 { vec![0, 1] } else { vec![0, 1, max - 1, max] };
            for v in vals {
                evals += 1;
                let r = guarded(|| rb.set(i, RefBlockEntry::try_from_plain(v, &info).unwrap()));
                if let Err(p) = r {
                    violation = Some(Violation::new(Rule::Panic, format!("RefBlock::set(order {order}, idx {i}, {v}) panicked although the value fits: {p}")));
                    break 'outer;
                }
                rc_set(&mut mirror, order, i as u64, v);
                if raw_of(&rb) != mirror {
                    violation = Some(viol(format!(
                        "refcount set(order {order}, index {i}, value {v}): raw block differs from big-endian / LSB-first packing (or touched another entry)"
                    )));
                    break 'outer;
                }
                let g = rb.get(i).into_plain();
                if g != v {
                    violation = Some(viol(format!("refcount get(order {order}, index {i}) = {g} after set {v}")));
                    break 'outer;
                }
                if v == max || v == 0 || v == max - 1 {
                    nt += 1;
                }
            }
            // increment at max must be refused, decrement at 0 must be refused
            let _ = rb.set(i, RefBlockEntry::try_from_plain(max, &info).unwrap());
            rc_set(&mut mirror, order, i as u64, max);
            evals += 1;
            match guarded(|| rb.increment(i)) {
                Ok(Ok(())) => {
                    violation = Some(viol(format!("refcount increment(order {order}, index {i}) beyond the maximum {max} succeeded")));
                    break 'outer;
                }
                Ok(Err(_)) | Err(_) => {}
            }
            if raw_of(&rb) != mirror {
                violation = Some(viol(format!("refused increment(order {order}, index {i}) modified the block")));
                break 'outer;
            }
            let _ = rb.set(i, RefBlockEntry::try_from_plain(0, &info).unwrap());
            rc_set(&mut mirror, order, i as u64, 0);
            evals += 1;
            match guarded(|| rb.decrement(i)) {
                Ok(Ok(())) => {
                    violation = Some(viol(format!("refcount decrement(order {order}, index {i}) below zero succeeded")));
                    break 'outer;
                }
                Ok(Err(_)) | Err(_) => {}
            }
            if raw_of(&rb) != mirror {
                violation = Some(viol(format!("refused decrement(order {order}, index {i}) modified the block")));
                break 'outer;
            }
            // a value that does not fit must be refused (Err or panic), never truncated
            if order < 6 {
                evals += 1;
                let before = raw_of(&rb);
                let r = guarded(|| rb.set(i, RefBlockEntry::try_from_plain(max + 1, &info).unwrap()));
                if r.is_ok() {
                    violation = Some(viol(format!("refcount set(order {order}, index {i}, {}) was accepted although it does not fit", max + 1)));
                    break 'outer;
                }
                if raw_of(&rb) != before {
                    violation = Some(viol(format!("refused refcount set(order {order}, index {i}) modified the block")));
                    break 'outer;
                }
            }
            // restore background + normal increment/decrement step
            let v = if max == 1 { 0 } else { std::cmp::min(5, max) };
            let _ = rb.set(i, RefBlockEntry::try_from_plain(v, &info).unwrap());
            rc_set(&mut mirror, order, i as u64, v);
            if v < max {
                evals += 1;
                let _ = rb.increment(i);
                rc_set(&mut mirror, order, i as u64, v + 1);
                if raw_of(&rb) != mirror {
                    violation = Some(viol(format!("refcount increment(order {order}, index {i}) from {v}: wrong raw block")));
                    break 'outer;
                }
                let _ = rb.decrement(i);
                rc_set(&mut mirror, order, i as u64, v);
                if raw_of(&rb) != mirror {
                    violation = Some(viol(format!("refcount decrement(order {order}, index {i}) to {v}: wrong raw block")));
                    break 'outer;
                }
            }
        }
    }
    FixedResult {
        name: "refcount_packing_exhaustive".into(),
        evaluations: evals,
        nontrivial: nt,
        exhaustive: true,
        sample: json!({"widths": "1,2,4,8,16,32,64 bit", "slice_bytes": 512, "values": "0,1,max-1,max per index; max+1 refused; increment at max / decrement at 0 refused"}),
        violation: violation.map(|v| (v, json!({"domain": "fixed", "case": "refcount_packing_exhaustive"}))),
    }
}

// ---------------------------------------------------------------------------------------
// address split (exhaustive over geometries x boundary offsets)
// ---------------------------------------------------------------------------------------

fn address_split_exhaustive(tier: Tier) -> FixedResult {
    let mut evals = 0u64;
    let mut nt = 0u64;
    let mut violation: Option<Violation> = None;
    let world = World::new();
    let id = world.add_file("x", vec![0u8; 512]);
    'outer: for cb in 9u32..=21 {
        let cs = 1u64 << cb;
        for order in 0u32..=6 {
            for bs_bits in [9u8, 12] {
                if bs_bits as u32 > cb {
                    continue;
                }
                let slice_choices: Vec<u8> = {
                    let mut v = vec![bs_bits, cb as u8];
                    if cb as u8 > bs_bits + 1 {
                        v.push((bs_bits + cb as u8) / 2);
                    }
                    v.sort_unstable();
                    v.dedup();
                    v
                };
                for &l2b in &slice_choices {
                    for &rbb in &slice_choices {
                        if tier == Tier::Quick && l2b != rbb && (cb + order) % 3 != 0 {
                            continue;
                        }
                        let (lh, info) = match info_for(cb, order, false, Some((l2b, 4usize << l2b)), Some((rbb, 4usize << rbb)), bs_bits, 1 << 45) {
                            Ok(x) => x,
                            Err(e) => {
                                violation = Some(viol(format!("legal geometry rejected (cluster_bits {cb}, order {order}, bs {bs_bits}, l2 slice {l2b}, rb slice {rbb}): {e}")));
                                break 'outer;
                            }
                        };
                        let p = Qcow2DevParams::new(bs_bits, Some((rbb, 4usize << rbb)), Some((l2b, 4usize << l2b)), false, false);
                        let dev = match guarded(|| Qcow2Dev::new(std::path::Path::new("x"), lh, &p, world.open(id))) {
                            Ok(Ok(d)) => d,
                            Ok(Err(e)) => {
                                violation = Some(viol(format!("Qcow2Dev::new failed for a legal geometry: {e:?}")));
                                break 'outer;
                            }
                            Err(pn) => {
                                violation = Some(Violation::new(Rule::Panic, format!("Qcow2Dev::new panicked (cluster_bits {cb}, order {order}, bs {bs_bits}, l2 {l2b}, rb {rbb}): {pn}")));
                                break 'outer;
                            }
                        };
                        let l2e = cs / 8;
                        let l2se = (1u64 << l2b) / 8;
                        let rbe = cs * 8 >> order;
                        let rbse = ((1u64 << rbb) * 8) >> order;
                        // boundary offsets
                        let units = [cs, cs * l2se, cs * l2e, cs * rbse, cs * rbe];
                        let mut offs: Vec<u64> = vec![0, 1, 511, 512, cs - 1, cs, cs + 1];
                        for u in units {
                            for k in [1u64, 2, 3, 7] {
                                let b = u.saturating_mul(k);
                                if b < (1u64 << 55) {
                                    offs.extend_from_slice(&[b - 1, b, b + 1, b + cs - 1, b + cs]);
                                }
                            }
                        }
                        offs.push((1u64 << 50) + 12345);
                        for &off in &offs {
                            evals += 1;
                            let c = off / cs;
                            let s = SplitGuestOffset(off);
                            let exp = (
                                (c / l2e) as usize,
                                (c % l2e) as usize,
                                (c % l2se) as usize,
                                (c / l2se) as usize,
                                (((c % l2e) / l2se) << l2b) as usize,
                                c * cs,
                                (off % cs) as usize,
                            );
                            let got = match guarded(|| {
                                (
                                    s.l1_index(&info),
                                    s.l2_index(&info),
                                    s.l2_slice_index(&info),
                                    s.l2_slice_key(&info),
                                    s.l2_slice_off_in_table(&info),
                                    s.cluster_offset(&info),
                                    s.in_cluster_offset(&info),
                                )
                            }) {
                                Ok(g) => g,
                                Err(pn) => {
                                    violation = Some(Violation::new(Rule::Panic, format!("SplitGuestOffset({off:#x}) panicked (cluster_bits {cb}, l2 slice bits {l2b}): {pn}")));
                                    break 'outer;
                                }
                            };
                            if got != exp {
                                violation = Some(viol(format!(
                                    "guest offset {off:#x} (cluster_bits {cb}, l2 slice bits {l2b}): (l1, l2, slice idx, slice key, slice off, cluster off, in-cluster) = {:?}, formulas give {:?}",
                                    got, exp
                                )));
                                break 'outer;
                            }
                            // composition reproduces the offset
                            let recomposed = ((got.0 as u64 * l2e + got.1 as u64) * cs) + got.6 as u64;
                            if recomposed != off {
                                violation = Some(viol(format!("guest offset {off:#x}: index composition gives {recomposed:#x}")));
                                break 'outer;
                            }
                            // host cluster split (cluster aligned host offsets)
                            let hoff = c * cs;
                            let hs = match guarded(|| dev.verif_host_split(hoff)) {
                                Ok(h) => h,
                                Err(pn) => {
                                    violation = Some(Violation::new(Rule::Panic, format!("HostCluster({hoff:#x}) split panicked (cluster_bits {cb}, order {order}, rb slice bits {rbb}): {pn}")));
                                    break 'outer;
                                }
                            };
                            let exp_h = (
                                (c / rbe) as usize,
                                (c % rbe) as usize,
                                (c % rbse) as usize,
                                (c / rbse) as usize,
                                (((c % rbe) / rbse) << rbb) as usize,
                                (c / rbse) * rbse * cs,
                                (c / rbse) * rbse * cs + rbse * cs,
                                (c / rbe) * rbe * cs,
                                (c / rbe) * rbe * cs + rbe * cs,
                            );
                            let got_h = (
                                hs.rt_index,
                                hs.rb_index,
                                hs.rb_slice_index,
                                hs.rb_slice_key,
                                hs.rb_slice_off_in_table,
                                hs.rb_slice_host_start,
                                hs.rb_slice_host_end,
                                hs.rb_host_start,
                                hs.rb_host_end,
                            );
                            if got_h != exp_h {
                                violation = Some(viol(format!(
                                    "host offset {hoff:#x} (cluster_bits {cb}, refcount_order {order}, rb slice bits {rbb}): split = {:?}, formulas give {:?}",
                                    got_h, exp_h
                                )));
                                break 'outer;
                            }
                            if off % cs == 0 || off % cs == cs - 1 {
                                nt += 1;
                            }
                        }
                        // top-table offset -> first slice key maps
                        for idx in [0u64, 1, 2, 63, 64, 511] {
                            evals += 1;
                            let (rbk, l2k) = dev.verif_slice_keys_of_top_off(idx * 8);
                            let exp_rbk = (idx * rbe / rbse) as usize;
                            let exp_l2k = (idx * l2e / l2se) as usize;
                            if rbk != exp_rbk || l2k != exp_l2k {
                                violation = Some(viol(format!(
                                    "top-table entry {idx}: first slice keys (rb, l2) = ({rbk}, {l2k}), formulas give ({exp_rbk}, {exp_l2k}) (cluster_bits {cb}, order {order}, slices {rbb}/{l2b})"
                                )));
                                break 'outer;
                            }
                        }
                    }
                }
            }
        }
    }
    FixedResult {
        name: "address_split_geometries".into(),
        evaluations: evals,
        nontrivial: nt,
        exhaustive: tier == Tier::Thorough,
        sample: json!({"geometries": "cluster_bits 9..21 x refcount_order 0..6 x bs {512,4096} x slice sizes {bs, mid, cluster} for both caches", "offsets": "0, +-1 around multiples 1,2,3,7 of cluster / l2 slice / l2 table / refblock slice / refblock coverage"}),
        violation: violation.map(|v| (v, json!({"domain": "fixed", "case": "address_split_geometries"}))),
    }
}

impl Prop for C15 {
    fn id(&self) -> &'static str {
        "C15"
    }
    fn level(&self) -> &'static str {
        "exploration"
    }
    fn rule_text(&self) -> String {
        "Four parts. header: generated v2/v3 headers (all field values, backing name, backing-format / feature-table / unknown \
         extensions) written by an independent serialiser -> from_buf getters must equal the fields; serialize_to_buf output \
         parsed by an independent parser must give the same fields, extensions and backing name, and must be accepted by \
         from_buf again. l2entry: generated entry values by class (unallocated, standard, zero flag, zero + preallocation, \
         compressed with boundary offsets/sector counts, forbidden entries) x every cluster_bits: try_from_plain must \
         accept exactly what the specification permits, into_mapping must equal the independent decoder, from_mapping must \
         return the same bits, allocation() must name the overlapped host clusters. refcount (exhaustive): every width 1..64 \
         bit x every index of a 512-byte slice x {0,1,max-1,max}: whole raw block compared with an independent big-endian / \
         LSB-first packer, values that do not fit refused, refused operations leave the block untouched. address split \
         (enumerated): every cluster_bits x refcount_order x block size x slice sizes x offsets at cluster / slice / table \
         boundaries +-1: guest and host index functions equal independent formulas and recompose the offset. \
         Non-trivial: header with extension/backing/v2; non-zero L2 entry; boundary value or boundary offset."
            .into()
    }
    fn assumptions(&self) -> Vec<String> {
        vec![
            "the independent serialiser/parser/decoder/packer in spec/layout.rs implement the qcow2 specification text".into(),
            "feature-name tables are compared as sets of 48-byte entries (their order is not significant)".into(),
        ]
    }
    fn domains(&self) -> Vec<Box<dyn Domain>> {
        vec![Box::new(HdrDomain), Box::new(L2Domain)]
    }
    fn fixed_checks(&self, tier: Tier, _excl: &Exclusions) -> Vec<FixedResult> {
        vec![refcount_exhaustive(), address_split_exhaustive(tier)]
    }
}
