pub mod c01;
pub mod c08;
pub mod c09;
pub mod c12;
pub mod c13;
pub mod c14;
pub mod c15;
pub mod c19;
pub mod c20;
pub mod common;
pub mod concprops;
pub mod crashprops;
pub mod faultprops;
pub mod seqdom;
pub mod seqprops;

use crate::runner::Prop;

pub fn all() -> Vec<Box<dyn Prop>> {
    vec![
        Box::new(c01::C01),
        Box::new(seqprops::C02),
        Box::new(seqprops::C03),
        Box::new(c08::C08),
        Box::new(c09::C09),
        Box::new(seqprops::C10),
        Box::new(seqprops::C11),
        Box::new(c12::C12),
        Box::new(c13::C13),
        Box::new(c14::C14),
        Box::new(c15::C15),
        Box::new(seqprops::C16),
        Box::new(crashprops::C04),
        Box::new(crashprops::C05),
        Box::new(concprops::C06),
        Box::new(concprops::C07),
        Box::new(faultprops::C17),
        Box::new(c19::C19),
        Box::new(c20::C20),
        Box::new(concprops::C18),
    ]
}
