//! C04 (every crash state is a safe image) and C05 (synced data survives any later crash)
use crate::crash::*;
use crate::engine::{Rule, Violation};
use crate::gen::{raw_strategy, Profile, RawCase};
use crate::runner::*;
use proptest::strategy::{BoxedStrategy, Strategy};
use serde_json::Value;

pub struct CrashDomain {
    pub name: &'static str,
    pub quick: u64,
    pub thorough: u64,
    pub profile: fn() -> Profile,
    pub cfg: fn() -> CrashCfg,
    pub force_syncs: bool,
    pub owns: fn(&Violation) -> bool,
    pub nontrivial: fn(&CrashRun) -> bool,
    /// adjust the decoded sequential case (exclusions, sizes)
    pub tweak: fn(&mut crate::case::SeqCase, &RawCase, u8, &Exclusions),
    pub case_tags: fn(&crate::case::SeqCase) -> Vec<String>,
}

fn crash_classes(r: &CrashRun, c: &CrashCase) -> Vec<String> {
    let st = &r.stats;
    let mut v = Vec::new();
    let mut add = |b: bool, s: &str| {
        if b {
            v.push(s.to_string());
        }
    };
    add(st.points_inside_flush > 0, "crash_inside_flush");
    add(st.points_inside_write > 0, "crash_inside_write");
    add(st.points_inside_discard > 0, "crash_inside_discard");
    add(st.torn_images > 0, "torn_images");
    add(st.max_volatile >= 4, "volatile_ge_4");
    add(st.sync_points > 0, "has_sync_point");
    add(st.durable_checks > 0, "durable_checked");
    add(st.later_op_shares_cluster > 0, "later_op_on_synced_cluster");
    add(st.leaked_images > 0, "image_with_leak_tolerated");
    add(c.seq.sched.is_some(), "scheduled_completions");
    add(c.seq.layers.len() > 1, "backing_chain");
    add(r.foreign.is_some(), "history_cut_short");
    v.push(format!("cluster_bits:{}", c.seq.layers[0].cluster_bits()));
    v.push(format!("bs_bits:{}", c.seq.params.bs_bits));
    v
}

impl Domain for CrashDomain {
    fn name(&self) -> &'static str {
        self.name
    }
    fn cases(&self, tier: Tier) -> u64 {
        match tier {
            Tier::Quick => self.quick,
            Tier::Thorough => self.thorough,
        }
    }
    fn strategy(&self, _tier: Tier) -> BoxedStrategy<RawCase> {
        raw_strategy(16, (self.profile)().max_ops, 200, 200).boxed()
    }
    fn decode(&self, raw: &RawCase, excl: &Exclusions) -> Value {
        let mut c = decode_crash(raw, &(self.profile)(), self.force_syncs);
        (self.tweak)(&mut c.seq, raw, 12, excl);
        serde_json::to_value(c).unwrap()
    }
    fn run(&self, case: &Value, _excl: &Exclusions) -> CaseResult {
        let case: CrashCase = match serde_json::from_value(case.clone()) {
            Ok(c) => c,
            Err(e) => {
                return CaseResult {
                    verdict: Verdict::Inconclusive(format!("bad case: {e}")),
                    nontrivial: false,
                    classes: vec![],
                    excluded: vec![],
            counters: vec![],
                }
            }
        };
        let mut run = run_crash(&case, &(self.cfg)());
        if let Some(v) = &mut run.violation {
            v.tags.extend((self.case_tags)(&case.seq));
            if run.growth.new_refblocks > 0 {
                v.tags.push("growth:refblock".into());
            }
            if run.growth.reftable_changed {
                v.tags.push("growth:reftable".into());
            }
            if run.growth.l1_changed {
                v.tags.push("growth:l1".into());
            }
        }
        let verdict = if let Some(m) = &run.inconclusive {
            Verdict::Inconclusive(m.clone())
        } else {
            match &run.violation {
                None => Verdict::Pass,
                Some(v) if (self.owns)(v) => Verdict::Violation(v.clone()),
                Some(v) => Verdict::Foreign(v.clone()),
            }
        };
        CaseResult {
            verdict,
            nontrivial: (self.nontrivial)(&run),
            classes: crash_classes(&run, &case),
            excluded: case.seq.excluded.clone(),
            counters: vec![],
        }
    }
}

/// Concurrent histories cut at crash points (C04: safe image; C05: synced data). The two
/// concurrency known findings of C06/C07 (a discard racing other calls; slice eviction while
/// several tasks run) corrupt metadata on their own, so their shapes are removed from every case
/// by construction and counted under `excluded`.
pub struct ConcCrashDomain {
    pub name: &'static str,
    pub quick: u64,
    pub thorough: u64,
    pub cfg: fn() -> CrashCfg,
    pub sync: bool,
    pub owns: fn(&Violation) -> bool,
    pub nontrivial: fn(&CrashRun) -> bool,
}

fn conc_crash_profile() -> crate::conc::ConcProfile {
    crate::conc::ConcProfile {
        base: Profile {
            sched_pct: 100,
            max_clusters: 32,
            cb_weights: [35, 25, 20, 15, 5, 0],
            max_cluster_bits: 14,
            depth_weights: [70, 24, 5, 1],
            ..Profile::default()
        },
        max_batches: 4,
        max_tasks: 5,
        max_calls: 3,
        op_weights: [58, 8, 10, 18, 6],
        small_cache_pct: 50,
    }
}

impl Domain for ConcCrashDomain {
    fn name(&self) -> &'static str {
        self.name
    }
    fn cases(&self, tier: Tier) -> u64 {
        match tier {
            Tier::Quick => self.quick,
            Tier::Thorough => self.thorough,
        }
    }
    fn strategy(&self, _tier: Tier) -> BoxedStrategy<RawCase> {
        raw_strategy(16, 40, 400, 200).boxed()
    }
    fn decode(&self, raw: &RawCase, _excl: &Exclusions) -> Value {
        let mut conc = crate::conc::decode_conc(raw, &conc_crash_profile());
        crate::conc::remove_shapes(&mut conc, true, true);
        serde_json::to_value(ConcCrashCase { conc, crash: raw.extra.clone() }).unwrap()
    }
    fn run(&self, case: &Value, _excl: &Exclusions) -> CaseResult {
        let case: ConcCrashCase = match serde_json::from_value(case.clone()) {
            Ok(c) => c,
            Err(e) => {
                return CaseResult {
                    verdict: Verdict::Inconclusive(format!("bad case: {e}")),
                    nontrivial: false,
                    classes: vec![],
                    excluded: vec![],
                    counters: vec![],
                }
            }
        };
        let run = run_crash_conc(&case, &(self.cfg)(), self.sync);
        let verdict = if let Some(m) = &run.inconclusive {
            Verdict::Inconclusive(m.clone())
        } else {
            match &run.violation {
                None => Verdict::Pass,
                Some(v) if (self.owns)(v) => Verdict::Violation(v.clone().tag("concurrent_history")),
                Some(v) => Verdict::Foreign(v.clone()),
            }
        };
        let st = &run.stats;
        let mut classes = Vec::new();
        let mut add = |b: bool, s: &str| {
            if b {
                classes.push(s.to_string());
            }
        };
        add(st.points_inside_flush > 0, "crash_inside_batch_with_flush");
        add(st.points_inside_write > 0, "crash_inside_write_batch");
        add(st.points_inside_discard > 0, "crash_inside_discard_batch");
        add(st.torn_images > 0, "torn_images");
        add(st.max_volatile >= 4, "volatile_ge_4");
        add(st.durable_checks > 0, "durable_checked");
        add(st.later_op_shares_cluster > 0, "later_op_on_synced_cluster");
        add(case.conc.layers.len() > 1, "backing_chain");
        add(run.foreign.is_some(), "history_cut_short");
        add(case.conc.batches.iter().any(|b| b.len() > 1 && b.iter().flatten().any(|o| matches!(o, crate::case::Op::Flush))), "flush_concurrent_with_other_calls");
        CaseResult {
            verdict,
            nontrivial: (self.nontrivial)(&run),
            classes,
            excluded: case.conc.excluded.clone(),
            counters: vec![("crash_images".into(), st.distinct_images as u64)],
        }
    }
}

fn crash_profile() -> Profile {
    Profile {
        max_ops: 25,
        op_weights: [50, 4, 17, 16, 7, 6, 0],
        cb_weights: [30, 25, 20, 20, 5, 0],
        max_cluster_bits: 14,
        max_clusters: 40,
        depth_weights: [75, 20, 4, 1],
        ..Profile::default()
    }
}

/// C04 only runs the checker on crash images (no guest reads), so it can afford a few tall images
fn crash_profile_c04() -> Profile {
    Profile {
        tall_l1_pct: 30,
        ..crash_profile()
    }
}

fn crash_assumptions() -> Vec<String> {
    vec![
        "crash model: a request is durable iff a successful fsync was submitted after it completed and has itself completed; every other request issued so far is independently persisted, lost, or torn at block-size granularity (any one of the versions a block received may survive)".into(),
        "crash points and subsets are sampled: systematic families (nothing / everything / exactly one / all but one un-synced request, all subsets up to k requests, in-order prefixes and suffixes beyond) plus generated per-block tearing".into(),
        "the independent checker's crash-safe mode is the judge (DESIGN.md appendix A)".into(),
    ]
}

pub struct C04;

impl Prop for C04 {
    fn id(&self) -> &'static str {
        "C04"
    }
    fn level(&self) -> &'static str {
        "fault_enumeration"
    }
    fn rule_text(&self) -> String {
        "Generated: sequential histories (write/discard/flush/fsync/shrink, built and formatted images, small caches so that \
         evictions write back metadata, optional intra-call completion schedules) executed with durability tracking; for up to 60 \
         crash points per history (before/at every fsync, around every metadata-sized request, generated extras) the crash \
         images are enumerated: nothing / everything / exactly one / all but one of the un-synced requests persisted, all \
         subsets when there are at most 6, in-order prefixes and suffixes otherwise, plus 3 images with an independent generated \
         choice per block (tearing). Oracle: the independent checker in crash-safe mode on every distinct image (tables parse, \
         reachable pointers valid and targets initialised, stored refcount >= references; leaks tolerated and counted). \
         evaluations = histories; distinct_nontrivial counts histories with at least one crash image that differs from both the \
         durable base and the everything-persisted image while an un-synced metadata request exists."
            .into()
    }
    fn assumptions(&self) -> Vec<String> {
        crash_assumptions()
    }
    fn domains(&self) -> Vec<Box<dyn Domain>> {
        vec![
        Box::new(CrashDomain {
            name: "crash",
            quick: 4_000,
            thorough: 60_000,
            profile: crash_profile_c04,
            cfg: || CrashCfg {
                check_safe: true,
                check_durable: false,
                max_points: 60,
                max_subset_k: 6,
                torn_per_point: 3,
                max_images: 400,
            },
            force_syncs: false,
            tweak: super::seqdom::no_tweak,
            case_tags: super::seqdom::no_tags,
            owns: |v| v.has_tag("crash") && matches!(v.rule, Rule::CheckCorrupt | Rule::CheckUnder),
            nontrivial: |r| r.stats.nontrivial_images > 0,
        }),
        Box::new(ConcCrashDomain {
            name: "conc",
            quick: 2_500,
            thorough: 45_000,
            cfg: || CrashCfg {
                check_safe: true,
                check_durable: false,
                max_points: 50,
                max_subset_k: 5,
                torn_per_point: 2,
                max_images: 300,
            },
            sync: false,
            owns: |v| v.has_tag("crash") && matches!(v.rule, Rule::CheckCorrupt | Rule::CheckUnder),
            nontrivial: |r| r.stats.nontrivial_images > 0,
        })]
    }
}

pub struct C05;

impl Prop for C05 {
    fn id(&self) -> &'static str {
        "C05"
    }
    fn level(&self) -> &'static str {
        "fault_enumeration"
    }
    fn rule_text(&self) -> String {
        "Generated: histories containing sync points (flush_meta directly followed by fsync_range, both Ok) followed by more \
         operations on other and on the same guest ranges (sharing L2 tables, slices and refcount blocks with synced data, \
         evictions, discards, copy-on-write); crash points after the first sync point with C04's image families. Oracle: each \
         distinct crash image is opened with a fresh library device (failure = violation) and fully read; every 512-byte block \
         must hold the value acknowledged at the latest sync point before the crash, or the value of a write issued after that \
         sync point, or zeros if a later discard covers its whole cluster. evaluations = histories; distinct_nontrivial counts \
         histories in which at least one crash image after a sync point was checked while un-synced metadata requests existed."
            .into()
    }
    fn assumptions(&self) -> Vec<String> {
        crash_assumptions()
    }
    fn domains(&self) -> Vec<Box<dyn Domain>> {
        vec![
        Box::new(CrashDomain {
            name: "crash",
            quick: 3_000,
            thorough: 50_000,
            profile: crash_profile,
            cfg: || CrashCfg {
                check_safe: false,
                check_durable: true,
                max_points: 40,
                max_subset_k: 4,
                torn_per_point: 2,
                max_images: 120,
            },
            force_syncs: true,
            tweak: super::seqdom::no_tweak,
            case_tags: super::seqdom::no_tags,
            owns: |v| v.has_tag("durable"),
            nontrivial: |r| r.stats.durable_checks > 0 && r.stats.nontrivial_images > 0,
        }),
        Box::new(ConcCrashDomain {
            name: "conc",
            quick: 2_000,
            thorough: 40_000,
            cfg: || CrashCfg {
                check_safe: false,
                check_durable: true,
                max_points: 40,
                max_subset_k: 4,
                torn_per_point: 2,
                max_images: 120,
            },
            sync: true,
            owns: |v| v.has_tag("durable"),
            nontrivial: |r| r.stats.durable_checks > 0 && r.stats.nontrivial_images > 0,
        })]
    }
}
