//! C14 Malformed or unsupported images are rejected, never mis-handled.
//! Cases run in worker subprocesses (address-space limit, own allocator accounting) because
//! the failure modes include segfaults, aborts and huge allocations.
use crate::case::*;
use crate::engine::*;
use crate::exec::guarded;
use crate::gen::{self, raw_strategy, weighted1, Profile, RawCase, Src};
use crate::runner::*;
use crate::sim::{ABuf, World};
use crate::spec::layout::*;
use proptest::strategy::{BoxedStrategy, Strategy};
use qcow2_rs::meta::Qcow2Header;
use serde::{Deserialize, Serialize};
use serde_json::{json, Value};
use std::cell::RefCell;
use std::io::{BufRead, BufReader, Write};
use std::process::{Child, ChildStdin, Command, Stdio};
use std::sync::mpsc::{channel, Receiver};

pub struct C14;

// ---------------------------------------------------------------------------------------
// allocation accounting (process wide; workers are single threaded)
// ---------------------------------------------------------------------------------------
pub mod alloc_count {
    use std::alloc::{GlobalAlloc, Layout, System};
    use std::sync::atomic::{AtomicUsize, Ordering};
    pub static CUR: AtomicUsize = AtomicUsize::new(0);
    pub static PEAK: AtomicUsize = AtomicUsize::new(0);
    pub struct Counting;
    unsafe impl GlobalAlloc for Counting {
        unsafe fn alloc(&self, l: Layout) -> *mut u8 {
            let p = System.alloc(l);
            if !p.is_null() {
                let c = CUR.fetch_add(l.size(), Ordering::Relaxed) + l.size();
                PEAK.fetch_max(c, Ordering::Relaxed);
            }
            p
        }
        unsafe fn dealloc(&self, p: *mut u8, l: Layout) {
            CUR.fetch_sub(l.size(), Ordering::Relaxed);
            System.dealloc(p, l)
        }
        unsafe fn alloc_zeroed(&self, l: Layout) -> *mut u8 {
            let p = System.alloc_zeroed(l);
            if !p.is_null() {
                let c = CUR.fetch_add(l.size(), Ordering::Relaxed) + l.size();
                PEAK.fetch_max(c, Ordering::Relaxed);
            }
            p
        }
        unsafe fn realloc(&self, p: *mut u8, l: Layout, new: usize) -> *mut u8 {
            let q = System.realloc(p, l, new);
            if !q.is_null() {
                if new >= l.size() {
                    let c = CUR.fetch_add(new - l.size(), Ordering::Relaxed) + (new - l.size());
                    PEAK.fetch_max(c, Ordering::Relaxed);
                } else {
                    CUR.fetch_sub(l.size() - new, Ordering::Relaxed);
                }
            }
            q
        }
    }
    pub fn reset_peak() -> usize {
        let c = CUR.load(Ordering::Relaxed);
        PEAK.store(c, Ordering::Relaxed);
        c
    }
    pub fn peak() -> usize {
        PEAK.load(Ordering::Relaxed)
    }
}

// ---------------------------------------------------------------------------------------
// cases
// ---------------------------------------------------------------------------------------

#[derive(Clone, Debug, Serialize, Deserialize)]
pub enum Mutation {
    /// big-endian field write: (offset, width in bytes, value)
    Field(String, u64, u8, u64),
    /// overwrite bytes at offset
    Bytes(String, u64, Vec<u8>),
    /// truncate the file to this length
    Truncate(u64),
    /// xor one byte
    Flip(u64, u8),
}

#[derive(Clone, Debug, Serialize, Deserialize)]
pub enum C14Case {
    /// raw bytes handed to Qcow2Header::from_buf (hex)
    HeaderBytes { hex: String, origin: String },
    /// builder image + mutations, opened and exercised
    Mutated { layers: Vec<LayerSpec>, params: DevParams, muts: Vec<Mutation>, battery: Vec<u16> },
    /// valid image with one unsupported feature switched on: must be refused
    Unsupported { layers: Vec<LayerSpec>, params: DevParams, feature: String, muts: Vec<Mutation> },
}

fn hex(b: &[u8]) -> String {
    b.iter().map(|x| format!("{x:02x}")).collect()
}
fn unhex(s: &str) -> Vec<u8> {
    (0..s.len() / 2).map(|i| u8::from_str_radix(&s[2 * i..2 * i + 2], 16).unwrap_or(0)).collect()
}

fn small_profile() -> Profile {
    Profile {
        cb_weights: [35, 25, 15, 15, 9, 1],
        max_clusters: 24,
        depth_weights: [80, 15, 5, 0],
        formatted_pct: 15,
        multi_l1: true,
        ..Profile::default()
    }
}

fn boundary_u64(v: u16, cs: u64, flen: u64) -> u64 {
    let c = [
        0u64,
        1,
        511,
        512,
        cs - 1,
        cs,
        cs + 512,
        flen.saturating_sub(cs),
        flen,
        flen + cs,
        flen * 2 + 1,
        1 << 31,
        (1u64 << 32) - 1,
        1 << 32,
        1 << 40,
        1 << 55,
        (1u64 << 56) - cs,
        1 << 56,
        1 << 62,
        1 << 63,
        u64::MAX - cs,
        u64::MAX,
    ];
    c[gen::pick1(v, c.len())]
}

/// generate mutations for a built image
fn gen_mutations(s: &mut Src, bytes: &[u8], h: &Hdr) -> Vec<Mutation> {
    let cs = h.cluster_size();
    let flen = bytes.len() as u64;
    let n = 1 + s.weighted(&[60, 25, 15]);
    let mut out = Vec::new();
    for _ in 0..n {
        let m = match s.weighted(&[34, 10, 22, 12, 10, 12]) {
            0 => {
                // header field
                let fields: [(&str, u64, u8); 17] = [
                    ("version", 4, 4),
                    ("backing_file_offset", 8, 8),
                    ("backing_file_size", 16, 4),
                    ("cluster_bits", 20, 4),
                    ("size", 24, 8),
                    ("crypt_method", 32, 4),
                    ("l1_size", 36, 4),
                    ("l1_table_offset", 40, 8),
                    ("refcount_table_offset", 48, 8),
                    ("refcount_table_clusters", 56, 4),
                    ("nb_snapshots", 60, 4),
                    ("snapshots_offset", 64, 8),
                    ("incompatible_features", 72, 8),
                    ("autoclear_features", 88, 8),
                    ("refcount_order", 96, 4),
                    ("header_length", 100, 4),
                    ("compression_type", 104, 1),
                ];
                let (name, off, w) = fields[s.pick(fields.len())];
                let val = match name {
                    "cluster_bits" => [0u64, 1, 8, 9, 12, 21, 22, 30, 31, 32, 63, 64, 255, u32::MAX as u64][s.pick(14)],
                    "refcount_order" => [0u64, 4, 6, 7, 8, 31, 63, 64, 255, u32::MAX as u64][s.pick(10)],
                    "version" => [0u64, 1, 2, 3, 4, 255, u32::MAX as u64][s.pick(7)],
                    "header_length" => [0u64, 8, 72, 100, 104, 105, 112, 4088, 4096, cs, cs + 8, u32::MAX as u64][s.pick(12)],
                    "l1_size" | "refcount_table_clusters" | "nb_snapshots" | "backing_file_size" => [0u64, 1, 2, 1023, 1024, 65536, 1 << 22, 1 << 24, (1 << 31) - 1, u32::MAX as u64][s.pick(10)],
                    "crypt_method" | "compression_type" => [0u64, 1, 2, 3, 255][s.pick(5)],
                    _ => boundary_u64(s.next(), cs, flen),
                };
                Mutation::Field(name.into(), off, w, val)
            }
            1 => {
                // extension area
                let o = h.header_length as u64;
                match s.pick(4) {
                    0 => Mutation::Field("ext_len".into(), o + 4, 4, [1u64, 47, 49, 97, cs, u32::MAX as u64][s.pick(6)]),
                    1 => Mutation::Field("ext_type".into(), o, 4, [EXT_FEATURE_TABLE as u64, EXT_BACKING_FMT as u64, 0x1111_1111, 0][s.pick(4)]),
                    2 => {
                        // feature table with a length that is 1 mod 48
                        let mut b = vec![0u8; 8 + 56];
                        put32(&mut b, 0, EXT_FEATURE_TABLE);
                        put32(&mut b, 4, 49);
                        Mutation::Bytes("ext_feature_table_49".into(), o, b)
                    }
                    _ => {
                        // invalid utf-8 backing format
                        let mut b = vec![0u8; 16];
                        put32(&mut b, 0, EXT_BACKING_FMT);
                        put32(&mut b, 4, 4);
                        b[8..12].copy_from_slice(&[0xff, 0xfe, 0xfd, 0x80]);
                        Mutation::Bytes("ext_backing_fmt_bad_utf8".into(), o, b)
                    }
                }
            }
            2 => {
                // a table entry
                let which = s.pick(4);
                let (name, base, entries) = match which {
                    0 => ("l1_entry", h.l1_table_offset, std::cmp::max(h.l1_size as u64, 1)),
                    1 => ("reftable_entry", h.refcount_table_offset, 4),
                    2 => {
                        // an L2 entry of the first L2 table
                        let l1e = be64_z(bytes, h.l1_table_offset) & OFF_MASK;
                        ("l2_entry", if l1e == 0 { h.l1_table_offset } else { l1e }, 16)
                    }
                    _ => {
                        let rte = be64_z(bytes, h.refcount_table_offset) & !0x1ff;
                        ("refblock_word", if rte == 0 { h.refcount_table_offset } else { rte }, 8)
                    }
                };
                let idx = s.pick(entries as usize) as u64;
                let val = match s.weighted(&[30, 15, 15, 10, 10, 20]) {
                    0 => boundary_u64(s.next(), cs, flen),
                    1 => COPIED | boundary_u64(s.next(), cs, flen),
                    2 => COMPRESSED | boundary_u64(s.next(), cs, flen) | ((s.next() as u64) << 48),
                    3 => u64::MAX,
                    4 => 1 | (boundary_u64(s.next(), cs, flen) & OFF_MASK),
                    _ => {
                        // point at another structure: header, l1, reftable
                        let t = [0u64, h.l1_table_offset, h.refcount_table_offset, cs][s.pick(4)];
                        t | COPIED
                    }
                };
                Mutation::Field(name.into(), base + idx * 8, 8, val)
            }
            3 => Mutation::Truncate(match s.pick(6) {
                0 => 0,
                1 => 50,
                2 => 104,
                3 => cs,
                4 => flen.saturating_sub(cs),
                _ => s.range(0, flen),
            }),
            4 => {
                let off = s.range(0, std::cmp::min(flen.saturating_sub(1), 4 * cs));
                Mutation::Flip(off, 1 << s.pick(8))
            }
            _ => {
                // garbage over a metadata cluster
                let targets = [h.l1_table_offset, h.refcount_table_offset, be64_z(bytes, h.l1_table_offset) & OFF_MASK, be64_z(bytes, h.refcount_table_offset) & !0x1ff];
                let t = targets[s.pick(4)];
                let len = std::cmp::min(cs, 256) as usize;
                let fill = [0xffu8, 0x11, 0xa5, 0x80][s.pick(4)];
                Mutation::Bytes("garbage".into(), t + (s.pick(4) as u64) * 8, vec![fill; len])
            }
        };
        out.push(m);
    }
    out
}

fn apply(bytes: &mut Vec<u8>, m: &Mutation) {
    match m {
        Mutation::Field(_, off, w, val) => {
            let o = *off as usize;
            let w = *w as usize;
            if o + w <= bytes.len() {
                for i in 0..w {
                    bytes[o + i] = (val >> (8 * (w - 1 - i))) as u8;
                }
            }
        }
        Mutation::Bytes(_, off, b) => {
            let o = *off as usize;
            if o < bytes.len() {
                let n = std::cmp::min(b.len(), bytes.len() - o);
                bytes[o..o + n].copy_from_slice(&b[..n]);
            }
        }
        Mutation::Truncate(l) => bytes.truncate(*l as usize),
        Mutation::Flip(off, bit) => {
            if (*off as usize) < bytes.len() {
                bytes[*off as usize] ^= bit;
            }
        }
    }
}

fn mutation_label(m: &Mutation) -> String {
    match m {
        Mutation::Field(n, ..) => format!("field:{n}"),
        Mutation::Bytes(n, ..) => format!("bytes:{n}"),
        Mutation::Truncate(_) => "truncate".into(),
        Mutation::Flip(..) => "bitflip".into(),
    }
}

const UNSUPPORTED: [&str; 12] = [
    "crypt_method=1",
    "crypt_method=2",
    "incompatible:dirty",
    "incompatible:corrupt",
    "incompatible:external_data_file",
    "incompatible:compression_type(zstd)",
    "incompatible:extended_l2",
    "incompatible:unknown_bit_5",
    "incompatible:unknown_bit_63",
    "refcount_order=7",
    "cluster_bits=8",
    "cluster_bits=22",
];

fn unsupported_muts(feature: &str) -> Vec<Mutation> {
    let f = |n: &str, o, w, v| Mutation::Field(n.into(), o, w, v);
    match feature {
        "crypt_method=1" => vec![f("crypt_method", 32, 4, 1)],
        "crypt_method=2" => vec![f("crypt_method", 32, 4, 2)],
        "incompatible:dirty" => vec![f("incompatible_features", 72, 8, 1)],
        "incompatible:corrupt" => vec![f("incompatible_features", 72, 8, 2)],
        "incompatible:external_data_file" => vec![f("incompatible_features", 72, 8, 4)],
        "incompatible:compression_type(zstd)" => vec![f("incompatible_features", 72, 8, 8), f("compression_type", 104, 1, 1)],
        "incompatible:extended_l2" => vec![f("incompatible_features", 72, 8, 16)],
        "incompatible:unknown_bit_5" => vec![f("incompatible_features", 72, 8, 32)],
        "incompatible:unknown_bit_63" => vec![f("incompatible_features", 72, 8, 1 << 63)],
        "refcount_order=7" => vec![f("refcount_order", 96, 4, 7)],
        "cluster_bits=8" => vec![f("cluster_bits", 20, 4, 8)],
        _ => vec![f("cluster_bits", 20, 4, 22)],
    }
}

// ---------------------------------------------------------------------------------------
// execution (inside the worker)
// ---------------------------------------------------------------------------------------

pub struct Outcome {
    pub violation: Option<Violation>,
    pub inconclusive: Option<String>,
    pub nontrivial: bool,
    pub classes: Vec<String>,
}

const MEM_BASE: usize = 128 << 20;

fn run_header_bytes(b: &[u8], origin: &str) -> Outcome {
    let before = alloc_count::reset_peak();
    let r = guarded(|| Qcow2Header::from_buf(b));
    let peak = alloc_count::peak().saturating_sub(before);
    let mut classes = vec![format!("origin:{origin}"), format!("len_class:{}", match b.len() {
        0..=71 => "lt72",
        72..=104 => "72..104",
        105..=111 => "105..111",
        112..=4095 => "112..4095",
        _ => "ge4096",
    })];
    let past_magic = b.len() >= 8 && be32(b, 0) == MAGIC && (2..=3).contains(&be32(b, 4));
    if past_magic {
        classes.push("past_magic_and_version".into());
    }
    let violation = match r {
        Err(p) => Some(Violation::new(Rule::Panic, format!("Qcow2Header::from_buf panicked on a {}-byte input ({origin}): {p}", b.len())).tag(format!("panic:{}", panic_site(&p))).tag("from_buf")),
        Ok(res) => {
            if peak > MEM_BASE + 4 * b.len() {
                Some(Violation::new(Rule::Budget, format!("from_buf allocated {peak} bytes for a {}-byte input", b.len())).tag("memory"))
            } else if let Ok(h) = &res {
                // accepted: it must be inside the supported set
                match parse_header(b) {
                    Ok(sh) => refusal_required(&sh).map(|r| Violation::new(Rule::Validation, format!("from_buf accepted a header using an unsupported feature: {r}")).tag("accepted_unsupported")),
                    Err(why) => {
                        let _ = h;
                        Some(Violation::new(Rule::Validation, format!("from_buf accepted a header the specification rejects: {why}")).tag("accepted_invalid").tag(format!("why:{}", why.chars().filter(|c| !c.is_ascii_digit()).take(30).collect::<String>())))
                    }
                }
            } else {
                None
            }
        }
    };
    Outcome {
        violation,
        inconclusive: None,
        nontrivial: past_magic,
        classes,
    }
}

fn run_image(layers: &[LayerSpec], params: &DevParams, muts: &[Mutation], battery: &[u16], must_refuse: Option<&str>) -> Outcome {
    let mut classes: Vec<String> = muts.iter().map(mutation_label).collect();
    let built = match build_layers(layers) {
        Ok(l) => l,
        Err(e) => {
            return Outcome {
                violation: None,
                inconclusive: Some(e.msg),
                nontrivial: false,
                classes,
            }
        }
    };
    let mut bytes = built.bytes[0].clone();
    for m in muts {
        apply(&mut bytes, m);
    }
    let flen = bytes.len();
    let world = World::new();
    world.add_file(&layer_name(0), bytes.clone());
    for (i, b) in built.bytes.iter().enumerate().skip(1) {
        world.add_file(&layer_name(i), b.clone());
    }
    world.0.borrow_mut().max_file_len = 64 << 20;
    let before = alloc_count::reset_peak();
    let mem_check = |what: &str| -> Option<Violation> {
        let peak = alloc_count::peak().saturating_sub(before);
        if peak > MEM_BASE + 4 * flen + (64 << 20) {
            Some(Violation::new(Rule::Budget, format!("{what}: peak heap {peak} bytes for a {flen}-byte image (bound {} )", MEM_BASE + 4 * flen)).tag("memory"))
        } else {
            None
        }
    };
    let spec_view = parse_header(&bytes);
    let opened = open_chain(&world, 0, params, false);
    let dev = match opened {
        Err(p) => {
            return Outcome {
                violation: Some(Violation::new(Rule::Panic, format!("opening the image panicked: {p} (mutations {muts:?})")).tag(format!("panic:{}", panic_site(&p))).tag("open")),
                inconclusive: None,
                nontrivial: true,
                classes,
            }
        }
        Ok(Err(_)) => {
            classes.push("open:refused".into());
            return Outcome {
                violation: mem_check("open (refused)"),
                inconclusive: None,
                nontrivial: true,
                classes,
            };
        }
        Ok(Ok(d)) => d,
    };
    classes.push("open:accepted".into());
    if let Some(f) = must_refuse {
        return Outcome {
            violation: Some(Violation::new(Rule::Validation, format!("image with unsupported feature {f} was opened instead of being refused")).tag("accepted_unsupported").tag(format!("feature:{f}"))),
            inconclusive: None,
            nontrivial: true,
            classes,
        };
    }
    if let Some(v) = mem_check("open") {
        return Outcome {
            violation: Some(v),
            inconclusive: None,
            nontrivial: true,
            classes,
        };
    }
    // accepted although the header is outside the supported set?
    if let Ok(sh) = &spec_view {
        if let Some(r) = refusal_required(sh) {
            return Outcome {
                violation: Some(Violation::new(Rule::Validation, format!("image using an unsupported feature ({r}) was opened")).tag("accepted_unsupported")),
                inconclusive: None,
                nontrivial: true,
                classes,
            };
        }
    }
    // battery: every call returns Ok or Err
    let mut sched = Sched::new(None);
    let info_vsize = dev.info.virtual_size();
    let cs = dev.info.cluster_size() as u64;
    let bs = params.bs() as u64;
    let mut v: Option<Violation> = None;
    let mut call = |name: &str, d: Driven<Result<(), String>>| -> bool {
        match d {
            Driven::Done(_) => true,
            Driven::Panic(p) => {
                v = Some(Violation::new(Rule::Panic, format!("{name} panicked on a device opened from a malformed image: {p} (mutations {muts:?})")).tag(format!("panic:{}", panic_site(&p))).tag(name.split('(').next().unwrap_or("")));
                false
            }
            Driven::Deadlock => {
                v = Some(Violation::new(Rule::Deadlock, format!("{name} blocked forever on a device opened from a malformed image (mutations {muts:?})")).tag(name.split('(').next().unwrap_or("")));
                false
            }
            Driven::Budget => {
                v = Some(Violation::new(Rule::Budget, format!("{name} exceeded the step budget on a device opened from a malformed image (mutations {muts:?})")).tag(name.split('(').next().unwrap_or("")));
                false
            }
        }
    };
    let nclusters = std::cmp::min(info_vsize.div_ceil(cs.max(1)), 48);
    let mut ok = true;
    for g in 0..nclusters {
        let off = g * cs;
        ok = call(&format!("get_mapping({off})"), drive(&world, &mut sched, async { dev.get_mapping(off).await.map(|_| ()).map_err(|e| format!("{e:?}")) }));
        if !ok {
            break;
        }
        let len = std::cmp::min(cs, 1 << 20) as usize;
        let len = len - len % bs as usize;
        if len > 0 && off % bs == 0 {
            let mut buf = ABuf::new(len, crate::pat::POISON);
            ok = call(&format!("read_at({off},{len})"), drive(&world, &mut sched, async { dev.read_at(&mut buf, off).await.map(|_| ()).map_err(|e| format!("{e:?}")) }));
            if !ok {
                break;
            }
        }
    }
    // generated offsets (far into a possibly huge virtual disk)
    if ok {
        for c in battery.iter().take(6) {
            let off = ((info_vsize as u128 * *c as u128) >> 16) as u64 / bs.max(1) * bs.max(1);
            let mut buf = ABuf::new(bs as usize, crate::pat::POISON);
            ok = call(&format!("read_at({off},{bs})"), drive(&world, &mut sched, async { dev.read_at(&mut buf, off).await.map(|_| ()).map_err(|e| format!("{e:?}")) }));
            if !ok {
                break;
            }
        }
    }
    if ok && info_vsize <= (64 << 20) / 1 && info_vsize.div_ceil(cs.max(1)) <= 100_000 {
        // check() walks every cluster the (possibly garbage) refcount table claims to cover: its
        // cost is bounded by the table, not by the file, so a budget hit is not a verdict here
        let d = drive(&world, &mut sched, async { dev.check().await.map_err(|e| format!("{e:?}")) });
        if matches!(d, Driven::Budget) {
            classes.push("check_budget_hit(no verdict)".into());
        } else {
            ok = call("check()", d);
        }
    }
    if ok {
        // a few modifying calls (on the in-memory copy)
        for (i, c) in battery.iter().skip(6).take(4).enumerate() {
            let g = gen::pick1(*c, std::cmp::max(nclusters, 1) as usize) as u64;
            let off = g * cs;
            if off % bs != 0 || off >= info_vsize {
                continue;
            }
            let data = ABuf::new(bs as usize, 0x33);
            ok = call(&format!("write_at({off},{bs})"), drive(&world, &mut sched, async { dev.write_at(&data, off).await.map_err(|e| format!("{e:?}")) }));
            if !ok {
                break;
            }
            if i == 1 {
                ok = call(&format!("discard({off},{cs})"), drive(&world, &mut sched, async { dev.discard(off, cs).await.map_err(|e| format!("{e:?}")) }));
                if !ok {
                    break;
                }
            }
        }
    }
    if ok {
        let _ = call("flush_meta()", drive(&world, &mut sched, async { dev.flush_meta().await.map_err(|e| format!("{e:?}")) }));
    }
    if v.is_none() {
        v = mem_check("operations");
    }
    // leak the device if a call panicked (poisoned state)
    if v.as_ref().map(|x| x.rule == Rule::Panic).unwrap_or(false) {
        std::mem::forget(dev);
    }
    Outcome {
        violation: v,
        inconclusive: None,
        nontrivial: true,
        classes,
    }
}

pub fn run_case(c: &C14Case) -> Outcome {
    match c {
        C14Case::HeaderBytes { hex, origin } => run_header_bytes(&unhex(hex), origin),
        C14Case::Mutated { layers, params, muts, battery } => run_image(layers, params, muts, battery, None),
        C14Case::Unsupported { layers, params, feature, muts } => {
            let mut o = run_image(layers, params, muts, &[], Some(feature));
            o.classes.push(format!("feature:{feature}"));
            o
        }
    }
}

/// `qv worker`: one JSON case per line on stdin, one JSON result per line on stdout
pub fn worker_main() {
    // address space cap: a header-controlled allocation of terabytes must fail, not swap
    unsafe {
        let lim = libc::rlimit {
            rlim_cur: 8 << 30,
            rlim_max: 8 << 30,
        };
        libc::setrlimit(libc::RLIMIT_AS, &lim);
    }
    let stdin = std::io::stdin();
    let mut out = std::io::stdout();
    for line in stdin.lock().lines() {
        let Ok(line) = line else { break };
        let res = match serde_json::from_str::<C14Case>(&line) {
            Ok(c) => {
                let o = run_case(&c);
                json!({"violation": o.violation, "inconclusive": o.inconclusive, "nontrivial": o.nontrivial, "classes": o.classes})
            }
            Err(e) => json!({"inconclusive": format!("bad case: {e}"), "nontrivial": false, "classes": []}),
        };
        let _ = writeln!(out, "{}", res);
        let _ = out.flush();
    }
}

// ---------------------------------------------------------------------------------------
// supervisor side
// ---------------------------------------------------------------------------------------

struct Worker {
    child: Child,
    stdin: ChildStdin,
    rx: Receiver<String>,
}

thread_local! {
    static WORKER: RefCell<Option<Worker>> = const { RefCell::new(None) };
}

fn spawn_worker() -> Option<Worker> {
    let exe = std::env::current_exe().ok()?;
    let mut child = Command::new(exe).arg("worker").stdin(Stdio::piped()).stdout(Stdio::piped()).stderr(Stdio::null()).spawn().ok()?;
    let stdin = child.stdin.take()?;
    let stdout = child.stdout.take()?;
    let (tx, rx) = channel();
    std::thread::spawn(move || {
        let r = BufReader::new(stdout);
        for l in r.lines() {
            match l {
                Ok(l) => {
                    if tx.send(l).is_err() {
                        break;
                    }
                }
                Err(_) => break,
            }
        }
    });
    Some(Worker { child, stdin, rx })
}

fn run_in_worker(case: &C14Case) -> Outcome {
    let line = serde_json::to_string(case).unwrap();
    let timeout = std::time::Duration::from_secs(std::env::var("VERIF_WORKER_TIMEOUT_S").ok().and_then(|s| s.parse().ok()).unwrap_or(60));
    WORKER.with(|w| {
        let mut w = w.borrow_mut();
        if w.is_none() {
            *w = spawn_worker();
        }
        let Some(wk) = w.as_mut() else {
            return Outcome {
                violation: None,
                inconclusive: Some("cannot spawn worker".into()),
                nontrivial: false,
                classes: vec![],
            };
        };
        if writeln!(wk.stdin, "{line}").is_err() || wk.stdin.flush().is_err() {
            let _ = wk.child.kill();
            let _ = wk.child.wait();
            *w = None;
            return Outcome {
                violation: None,
                inconclusive: Some("worker pipe broken".into()),
                nontrivial: false,
                classes: vec![],
            };
        }
        match wk.rx.recv_timeout(timeout) {
            Ok(reply) => {
                let v: Value = serde_json::from_str(&reply).unwrap_or(Value::Null);
                Outcome {
                    violation: v.get("violation").and_then(|x| serde_json::from_value::<Option<Violation>>(x.clone()).ok()).flatten(),
                    inconclusive: v.get("inconclusive").and_then(|x| x.as_str()).map(|s| s.to_string()),
                    nontrivial: v.get("nontrivial").and_then(|x| x.as_bool()).unwrap_or(false),
                    classes: v.get("classes").and_then(|x| serde_json::from_value(x.clone()).ok()).unwrap_or_default(),
                }
            }
            Err(std::sync::mpsc::RecvTimeoutError::Timeout) => {
                let _ = wk.child.kill();
                let _ = wk.child.wait();
                *w = None;
                Outcome {
                    violation: None,
                    inconclusive: Some("worker timed out (wall clock): no verdict".into()),
                    nontrivial: false,
                    classes: vec!["worker_timeout".into()],
                }
            }
            Err(_) => {
                // the worker died while handling this case
                let status = wk.child.wait().ok();
                *w = None;
                use std::os::unix::process::ExitStatusExt;
                let sig = status.and_then(|s| s.signal());
                let what = match sig {
                    Some(11) => "SIGSEGV".to_string(),
                    Some(6) => "SIGABRT".to_string(),
                    Some(9) => "SIGKILL".to_string(),
                    Some(s) => format!("signal {s}"),
                    None => format!("exit status {:?}", status.and_then(|s| s.code())),
                };
                Outcome {
                    violation: Some(Violation::new(Rule::Panic, format!("the process handling this image died with {what} (crash, abort or out-of-proportion allocation)")).tag(format!("died:{what}"))),
                    inconclusive: None,
                    nontrivial: true,
                    classes: vec![],
                }
            }
        }
    })
}

fn to_result(o: Outcome) -> CaseResult {
    let verdict = match (o.violation, o.inconclusive) {
        (Some(v), _) => Verdict::Violation(v),
        (None, Some(m)) => Verdict::Inconclusive(m),
        _ => Verdict::Pass,
    };
    CaseResult {
        verdict,
        nontrivial: o.nontrivial,
        classes: o.classes,
        excluded: vec![],
        counters: vec![],
    }
}

// ---------------------------------------------------------------------------------------
// domains
// ---------------------------------------------------------------------------------------

struct BytesDomain;

fn gen_header_bytes(raw: &RawCase) -> C14Case {
    let mut s = Src::new(&raw.head);
    // start from a plausible header most of the time so that the magic check is passed
    let origin = s.weighted(&[25, 45, 30]);
    let mut b: Vec<u8>;
    let name;
    match origin {
        0 => {
            let n = match s.weighted(&[30, 20, 20, 20, 10]) {
                0 => s.pick(72),
                1 => 72 + s.pick(40),
                2 => 112 + s.pick(400),
                3 => 4090 + s.pick(12),
                _ => 65530 + s.pick(12),
            };
            b = (0..n).map(|_| (s.next() & 0xff) as u8).collect();
            name = "random";
        }
        _ => {
            let cb = 9 + s.pick(13) as u32;
            let h = Hdr {
                version: if s.chance(1, 3) { 2 } else { 3 },
                backing_file_offset: 0,
                backing_file_size: 0,
                cluster_bits: cb,
                size: s.range(0, 1 << 40),
                crypt_method: 0,
                l1_size: s.pick(1000) as u32,
                l1_table_offset: 3 << cb,
                refcount_table_offset: 1 << cb,
                refcount_table_clusters: 1,
                nb_snapshots: 0,
                snapshots_offset: 0,
                incompatible: 0,
                compatible: 0,
                autoclear: 0,
                refcount_order: s.pick(7) as u32,
                header_length: 112,
                compression_type: 0,
                backing: if s.chance(1, 2) { Some(b"base.img".to_vec()) } else { None },
                exts: if s.chance(1, 2) { vec![(EXT_BACKING_FMT, b"raw".to_vec()), (EXT_FEATURE_TABLE, vec![0u8; 48])] } else { vec![] },
            };
            b = ser_header(&h);
            let total = match s.weighted(&[30, 30, 20, 20]) {
                0 => b.len(),
                1 => 4096,
                2 => s.pick(b.len() + 1),
                _ => b.len() + s.pick(64),
            };
            b.resize(total, 0);
            name = if origin == 1 { "valid_header_mutated" } else { "valid_header_heavily_mutated" };
            let nmut = if origin == 1 { 1 + s.pick(2) } else { 3 + s.pick(12) };
            for _ in 0..nmut {
                if b.is_empty() {
                    break;
                }
                let pos = match s.weighted(&[60, 40]) {
                    0 => s.pick(std::cmp::min(b.len(), 120)),
                    _ => s.pick(b.len()),
                };
                match s.weighted(&[40, 30, 30]) {
                    0 => b[pos] = (s.next() & 0xff) as u8,
                    1 => b[pos] = [0u8, 0xff, 0x80, 0x7f, 1][s.pick(5)],
                    _ => {
                        // a whole big-endian field with a boundary value
                        let val = boundary_u64(s.next(), 1 << cb, 4096);
                        let w = if s.chance(1, 2) { 4 } else { 8 };
                        let p = pos / 4 * 4;
                        for i in 0..w {
                            if p + i < b.len() {
                                b[p + i] = (val >> (8 * (w - 1 - i))) as u8;
                            }
                        }
                    }
                }
            }
        }
    }
    C14Case::HeaderBytes { hex: hex(&b), origin: name.into() }
}

impl Domain for BytesDomain {
    fn name(&self) -> &'static str {
        "header_bytes"
    }
    fn cases(&self, tier: Tier) -> u64 {
        match tier {
            Tier::Quick => 60_000,
            Tier::Thorough => 3_000_000,
        }
    }
    fn strategy(&self, _tier: Tier) -> BoxedStrategy<RawCase> {
        raw_strategy(0, 0, 0, 0)
            .prop_flat_map(|r| {
                (proptest::collection::vec(proptest::prelude::any::<u16>(), 48..600)).prop_map(move |h| {
                    let mut r2 = r.clone();
                    r2.head = h;
                    r2
                })
            })
            .boxed()
    }
    fn decode(&self, raw: &RawCase, _excl: &Exclusions) -> Value {
        serde_json::to_value(gen_header_bytes(raw)).unwrap()
    }
    fn run(&self, case: &Value, _excl: &Exclusions) -> CaseResult {
        // from_buf failure modes are unwinding panics: safe to run in-process
        let c: C14Case = serde_json::from_value(case.clone()).unwrap();
        to_result(run_case(&c))
    }
}

struct MutDomain;

impl Domain for MutDomain {
    fn name(&self) -> &'static str {
        "mutated_image"
    }
    fn cases(&self, tier: Tier) -> u64 {
        match tier {
            Tier::Quick => 12_000,
            Tier::Thorough => 400_000,
        }
    }
    fn strategy(&self, _tier: Tier) -> BoxedStrategy<RawCase> {
        raw_strategy(12, 0, 0, 48).boxed()
    }
    fn decode(&self, raw: &RawCase, _excl: &Exclusions) -> Value {
        let p = small_profile();
        let (layers, params, _m, _u) = gen::gen_layers_params(raw, &p);
        let mut s = Src::new(&raw.extra);
        let muts = match build_layers(&layers[..1]) {
            Ok(b) => match parse_header(&b.bytes[0]) {
                Ok(h) => gen_mutations(&mut s, &b.bytes[0], &h),
                Err(_) => vec![],
            },
            Err(_) => vec![],
        };
        let battery: Vec<u16> = (0..12).map(|_| s.next()).collect();
        serde_json::to_value(C14Case::Mutated { layers, params, muts, battery }).unwrap()
    }
    fn run(&self, case: &Value, _excl: &Exclusions) -> CaseResult {
        let c: C14Case = serde_json::from_value(case.clone()).unwrap();
        to_result(run_in_worker(&c))
    }
}

struct UnsupportedDomain;

impl Domain for UnsupportedDomain {
    fn name(&self) -> &'static str {
        "unsupported_feature"
    }
    fn cases(&self, tier: Tier) -> u64 {
        match tier {
            Tier::Quick => 1_200,
            Tier::Thorough => 30_000,
        }
    }
    fn strategy(&self, _tier: Tier) -> BoxedStrategy<RawCase> {
        raw_strategy(12, 0, 0, 4).boxed()
    }
    fn decode(&self, raw: &RawCase, _excl: &Exclusions) -> Value {
        let mut p = small_profile();
        p.formatted_pct = 0;
        let (mut layers, params, _m, _u) = gen::gen_layers_params(raw, &p);
        // v3 images only: the feature fields do not exist in v2
        for l in layers.iter_mut() {
            if let LayerSpec::Built(s) = l {
                s.version = 3;
            }
        }
        let f = UNSUPPORTED[weighted1(raw.extra.first().copied().unwrap_or(0), &[1; 12])];
        serde_json::to_value(C14Case::Unsupported {
            layers,
            params,
            feature: f.into(),
            muts: unsupported_muts(f),
        })
        .unwrap()
    }
    fn run(&self, case: &Value, _excl: &Exclusions) -> CaseResult {
        let c: C14Case = serde_json::from_value(case.clone()).unwrap();
        to_result(run_in_worker(&c))
    }
}

impl Prop for C14 {
    fn id(&self) -> &'static str {
        "C14"
    }
    fn level(&self) -> &'static str {
        "exploration"
    }
    fn rule_text(&self) -> String {
        "Domain header_bytes: byte strings of every length class (0..71, 72..104, 105..111, up to 4 KiB / 64 KiB; random, or a valid \
         serialised header with 1..15 byte / boundary-value field mutations and truncation) -> Qcow2Header::from_buf: no panic, \
         bounded allocation, and whatever it accepts must be accepted by the independent parser and be inside the supported \
         feature set. Domain mutated_image: independent-builder images with 1..3 generated mutations (every header field with \
         boundary values, extension type/length incl. feature tables of length 1 mod 48, L1 / L2 / refcount-table / refcount-block \
         entries pointing anywhere, reserved bits, compressed descriptors, truncation, bit flips, garbage over metadata clusters) \
         -> open + battery (get_mapping and read_at over the first 48 clusters and generated far offsets, check(), writes, \
         discard, flush) inside worker subprocesses with an address-space limit: every call returns Ok or Err - no panic, no \
         death by signal, no deadlock, step/lookup/request budgets respected, peak heap <= 128 MiB + 4 x file size (+64 MiB for \
         the harness's own buffers). Domain unsupported_feature: valid v3 images with one unsupported feature switched on \
         (crypt_method 1/2, each incompatible bit incl. unknown ones, zstd, external data file, extended L2, refcount_order 7, \
         cluster_bits 8/22) must be refused. Non-trivial: (header_bytes) input passes magic + version; (images) every case."
            .into()
    }
    fn assumptions(&self) -> Vec<String> {
        vec![
            "a worker that exceeds 60 s wall clock is killed and counted as inconclusive (never a violation); deterministic budgets (steps, cache lookups, requests) are the livelock oracle".into(),
            "heap accounting counts every allocation of the worker process, including the harness's own image copies (hence the 64 MiB allowance)".into(),
        ]
    }
    fn domains(&self) -> Vec<Box<dyn Domain>> {
        vec![Box::new(BytesDomain), Box::new(MutDomain), Box::new(UnsupportedDomain)]
    }
}

// ---------------------------------------------------------------------------------------
// entry points of the libFuzzer targets (thorough tier)
// ---------------------------------------------------------------------------------------

/// fz_header: the oracle of the header_bytes domain on raw fuzzer input
pub fn fuzz_header(data: &[u8]) -> Option<Violation> {
    run_header_bytes(data, "libfuzzer").violation
}

/// fz_image: structure-aware decoding of the fuzzer input into a mutated-image case, run
/// in-process (the fuzzer itself contains crashes)
pub fn fuzz_image(data: &[u8]) -> Option<Violation> {
    let raw = RawCase::from_bytes(data);
    let none = Exclusions::default();
    let case = MutDomain.decode(&raw, &none);
    let c: C14Case = serde_json::from_value(case).ok()?;
    run_case(&c).violation
}

/// seed corpus helpers: serialised RawCases / plausible headers
pub fn corpus_header_samples() -> Vec<Vec<u8>> {
    let mut out = Vec::new();
    for k in 0..24u16 {
        let raw = RawCase {
            head: (0..600).map(|i| (i as u16).wrapping_mul(2654 + k * 17).wrapping_add(k * 4099)).collect(),
            img: vec![],
            ops: vec![],
            sched: vec![],
            extra: vec![],
        };
        if let C14Case::HeaderBytes { hex, .. } = gen_header_bytes(&raw) {
            out.push(unhex(&hex));
        }
    }
    out
}
