//! Helpers shared by the property modules.
use crate::case::SeqCase;
use crate::engine::{run_seq, Rule, SeqCfg, SeqRun, SeqStats, Violation};
use crate::gen::{self, Profile, RawCase};
use crate::runner::{CaseResult, Exclusions, Verdict};
use serde_json::Value;

pub fn seq_classes(st: &SeqStats, case: &SeqCase) -> Vec<String> {
    let mut c = Vec::new();
    let mut add = |b: bool, s: &str| {
        if b {
            c.push(s.to_string());
        }
    };
    add(st.sub_cluster_writes > 0, "sub_cluster_write");
    add(st.straddling_writes > 0, "straddling_write");
    add(st.multi_cluster_ops > 0, "multi_cluster_op");
    add(st.reads_of_modified > 0, "read_of_modified");
    add(st.reads_of_initial_nonzero > 0, "read_of_initial_content");
    add(st.reopens > 0, "reopen");
    add(st.flushes > 1, "multi_flush");
    add(st.cow_backing > 0, "cow_backing");
    add(st.cow_compressed > 0, "cow_compressed");
    add(st.discard_freed > 0, "discard_freed_cluster");
    add(st.discards > 0, "discard");
    add(case.sched.is_some(), "scheduled_completions");
    add(st.sched_nondefault > 0, "reordered_completions");
    add(case.layers.len() > 1, "backing_chain");
    add(case.layers.len() > 2, "backing_depth_ge2");
    add(st.header_writes > 0, "header_write");
    add(st.host_len_end > st.host_len_start, "host_file_grew");
    match &case.layers[0] {
        crate::case::LayerSpec::Formatted { .. } => c.push("image:formatted".into()),
        crate::case::LayerSpec::Built(s) => {
            c.push("image:built".into());
            if s.version == 2 {
                c.push("image:v2".into());
            }
            use crate::spec::builder::CKind;
            if s.clusters.iter().any(|k| matches!(k, CKind::Compressed(_))) {
                c.push("image:compressed".into());
            }
            if s.clusters.iter().any(|k| matches!(k, CKind::ZeroFlag | CKind::ZeroPrealloc)) {
                c.push("image:zero_clusters".into());
            }
        }
    }
    c.push(format!("cluster_bits:{}", case.layers[0].cluster_bits()));
    c.push(format!("refcount_order:{}", case.layers[0].refcount_order()));
    c.push(format!("bs_bits:{}", case.params.bs_bits));
    c.push(if case.params.l2.is_none() { "l2cache:default".into() } else { format!("l2cache:slices{}", case.params.l2.map(|x| x.1 >> x.0).unwrap_or(0).min(9)) });
    c
}

/// Run a sequential case and split the outcome into owned / foreign.
pub fn run_owned(case: &SeqCase, cfg: &SeqCfg, owns: &dyn Fn(&Violation) -> bool) -> (SeqRun, Verdict) {
    let run = run_seq(case, cfg);
    let verdict = if let Some(m) = &run.inconclusive {
        Verdict::Inconclusive(m.clone())
    } else {
        match &run.violation {
            None => Verdict::Pass,
            Some(v) if owns(v) => Verdict::Violation(v.clone()),
            Some(v) => Verdict::Foreign(v.clone()),
        }
    };
    (run, verdict)
}

pub fn decode_seq_value(raw: &RawCase, p: &Profile) -> Value {
    serde_json::to_value(gen::decode_seq(raw, p).case).unwrap()
}

pub fn case_from_value(v: &Value) -> Result<SeqCase, CaseResult> {
    serde_json::from_value::<SeqCase>(v.clone()).map_err(|e| CaseResult {
        verdict: Verdict::Inconclusive(format!("bad case: {e}")),
        nontrivial: false,
        classes: vec![],
        excluded: vec![],
            counters: vec![],
    })
}

pub fn is_progress_rule(r: Rule) -> bool {
    matches!(r, Rule::ApiErr | Rule::Panic | Rule::Deadlock | Rule::Budget)
}

#[allow(dead_code)]
pub fn unused(_e: &Exclusions) {}
