//! C02, C03, C10, C11, C16: sequential-history properties that differ in generator emphasis,
//! enabled monitors and owned rules.
use super::seqdom::*;
use crate::case::{Op, SeqCase};
use crate::engine::{Rule, SeqCfg};
use crate::gen::{self, Profile, RawCase};
use crate::runner::*;

fn seq_assumptions() -> Vec<String> {
    vec![
        "SimFile implements the host-file semantics the library relies on (tied to the real backends by C19)".into(),
        "the independent builder/checker/reader implement the qcow2 specification (cross-validated against each other)".into(),
        "virtual size is a multiple of every block size used; block size and custom slice sizes do not exceed the smallest cluster size of the chain".into(),
    ]
}

fn force_final_flush(c: &mut SeqCase, raw: &RawCase, max_bs: u8, _e: &Exclusions) {
    if !matches!(c.ops.last(), Some(Op::Flush)) {
        c.ops.push(Op::Flush);
    }
    c.reopen_params = gen::gen_reopen_params(&raw.extra, c, max_bs, 2);
}

/// Constructive history for the fragmentation domain: long writes to fresh guest ranges (host
/// clusters are handed out in write order), discards at the start / end / middle of earlier
/// writes (holes that touch refcount-slice boundaries), then long writes again, with flushes in
/// between. All offsets are cluster aligned (cluster >= block size), lengths clamped to the
/// virtual size.
pub fn frag_history(c: &mut SeqCase, raw: &RawCase, max_bs: u8, e: &Exclusions) {
    frag_ops(c, raw);
    force_final_flush(c, raw, max_bs, e);
}

/// the operation part of `frag_history` (no forced final flush)
pub fn frag_ops(c: &mut SeqCase, raw: &RawCase) {
    use crate::gen::{pick1, weighted1};
    use crate::pat::Pat;
    let cs = 1u64 << c.layers[0].cluster_bits();
    let vsize = c.layers[0].vsize();
    let n = vsize / cs; // whole clusters only
    if n >= 16 {
        let mut ops = Vec::new();
        let mut written: Vec<(u64, u64)> = Vec::new(); // (first cluster, clusters)
        let mut holes: Vec<(u64, u64)> = Vec::new();
        let mut fresh = 0u64;
        for (i, r) in raw.ops.iter().take(40).enumerate() {
            let long = |v: u16, max: u64| -> u64 {
                match weighted1(v, &[30, 40, 30]) {
                    0 => 1 + pick1(v.wrapping_mul(31), 8) as u64,
                    1 => 8 + pick1(v.wrapping_mul(31), 60) as u64,
                    _ => 60 + pick1(v.wrapping_mul(31), max.saturating_sub(60).max(1) as usize) as u64,
                }
            };
            let pat = Pat { id: i as u32 + 1, sparse: r[7] % 4 == 0 };
            match weighted1(r[0], &[38, 27, 12, 12, 3, 4, 4]) {
                0 => {
                    // fresh range
                    let len = std::cmp::min(long(r[1], 300), n);
                    if fresh + len > n {
                        fresh = pick1(r[2], (n - len + 1) as usize) as u64;
                    }
                    ops.push(Op::Write { off: fresh * cs, len: (len * cs) as usize, pat });
                    written.push((fresh, len));
                    fresh += len + [0, 0, 1, 5][pick1(r[3], 4)];
                }
                1 if !written.is_empty() => {
                    let (w0, wl) = written[pick1(r[1], written.len())];
                    let len = std::cmp::min(1 + pick1(r[2], 40) as u64, wl);
                    let start = match weighted1(r[3], &[40, 25, 35]) {
                        0 => w0 + wl - len,
                        1 => w0,
                        _ => w0 + pick1(r[4], (wl - len + 1) as usize) as u64,
                    };
                    ops.push(Op::Discard { off: start * cs, len: len * cs });
                    holes.push((start, len));
                }
                2 if !holes.is_empty() => {
                    // write over a hole, usually longer than the hole
                    let (h0, hl) = holes[pick1(r[1], holes.len())];
                    let len = std::cmp::min(hl + pick1(r[2], 50) as u64, n - h0);
                    ops.push(Op::Write { off: h0 * cs, len: (len * cs) as usize, pat });
                    written.push((h0, len));
                }
                3 => ops.push(Op::Flush),
                4 => ops.push(Op::Shrink),
                5 => {
                    let g = pick1(r[1], n as usize) as u64;
                    let len = std::cmp::min(1 + pick1(r[2], 4) as u64, n - g);
                    ops.push(Op::Read { off: g * cs, len: (len * cs) as usize });
                }
                _ => {
                    let g = pick1(r[1], n as usize) as u64;
                    ops.push(Op::Write { off: g * cs, len: cs as usize, pat });
                    written.push((g, 1));
                }
            }
        }
        c.ops = ops;
    }
}

/// geometry of the fragmentation domains (C01, C03, C08)
pub fn frag_profile() -> Profile {
    Profile {
        max_ops: 40,
        op_weights: [50, 3, 27, 12, 1, 3, 4],
        cb_weights: [75, 25, 0, 0, 0, 0],
        max_cluster_bits: 10,
        order_weights: Some([0, 1, 1, 2, 10, 26, 60]),
        max_clusters: 900,
        vsize_weights: [0, 5, 95, 0],
        max_write_clusters: 300,
        max_discard_clusters: 40,
        depth_weights: [92, 8, 0, 0],
        formatted_pct: 60,
        kind_weights: [80, 14, 2, 2, 2],
        small_rb_slices_pct: 85,
        sched_pct: 10,
        ..Profile::default()
    }
}

// ------------------------------------------------------------------------------------ C02
pub struct C02;

impl Prop for C02 {
    fn id(&self) -> &'static str {
        "C02"
    }
    fn level(&self) -> &'static str {
        "exploration"
    }
    fn rule_text(&self) -> String {
        "Generated: C01's histories (incl. evictions with 2-slice caches, shrink_caches, reopen, re-dirtying after a flush) \
         forced to end in flush_meta. Oracle: after EVERY successful flush_meta the file bytes (and the backing layers') are \
         copied into fresh simulated files, a new device is opened with the same and with 2 independently drawn legal \
         parameter sets, and a full sweep must equal the flat reference disk (which C01 ties to the old device). \
         Non-trivial: at least one metadata-dirtying operation (write/discard) before a flush and at least one reopen comparison \
         performed. Distinct = distinct decoded case."
            .into()
    }
    fn assumptions(&self) -> Vec<String> {
        seq_assumptions()
    }
    fn domains(&self) -> Vec<Box<dyn Domain>> {
        vec![
        Box::new(SeqDomain {
            name: "seq",
            quick: 5_000,
            thorough: 200_000,
            profile: || Profile {
                op_weights: [45, 12, 12, 12, 2, 7, 10],
                ..Profile::default()
            },
            cfg: || SeqCfg {
                sweep: false,
                check_on_flush: false,
                reopen_on_flush: true,
                mapping_check: false,
                align: false,
                final_flush: true,
                release_check: false,
                ..SeqCfg::default()
            },
            owns: |v| matches!(v.rule, Rule::Reopen | Rule::ReopenOpen) || (v.has_tag("reopened") && matches!(v.rule, Rule::ReadLen | Rule::ApiErr | Rule::Panic)),
            nontrivial: |r, _| r.stats.reopen_compares > 0 && (r.stats.writes + r.stats.discard_freed) > 0,
            tweak: force_final_flush,
            case_tags: no_tags,
            extra_classes: no_classes,
            max_sched: 200,
            max_extra: 24,
        }),
        // large host files on small-capacity geometries (C12's growth domain with its two known
        // findings' shapes removed): refcount blocks are created, the refcount table gets entries
        // beyond its first 512-byte block, L2 tables spread over many clusters
        Box::new(SeqDomain {
            name: "growth",
            quick: 120,
            thorough: 5_000,
            profile: super::c12::growth_profile,
            cfg: || SeqCfg {
                sweep: false,
                check_on_flush: false,
                reopen_on_flush: true,
                mapping_check: false,
                align: false,
                final_flush: true,
                release_check: false,
                ..SeqCfg::default()
            },
            owns: |v| matches!(v.rule, Rule::Reopen | Rule::ReopenOpen) || (v.has_tag("reopened") && matches!(v.rule, Rule::ReadLen | Rule::ApiErr | Rule::Panic)),
            nontrivial: |r, _| r.stats.reopen_compares > 0 && r.stats.writes > 0,
            tweak: |c, raw, m, e| {
                super::c12::enlarge_within_initial_tables(c, raw, m);
                force_final_flush(c, raw, m, e);
            },
            case_tags: no_tags,
            extra_classes: no_classes,
            max_sched: 200,
            max_extra: 24,
        })]
    }
}

// ------------------------------------------------------------------------------------ C03
pub struct C03;

impl Prop for C03 {
    fn id(&self) -> &'static str {
        "C03"
    }
    fn level(&self) -> &'static str {
        "exploration"
    }
    fn rule_text(&self) -> String {
        "Generated: C02's histories over all refcount widths (1..64 bit), built images with compressed clusters sharing host \
         clusters, discards and cluster reuse. Oracle: the independent checker in strict mode on the file bytes after EVERY \
         successful flush_meta: header/table entries valid and aligned, no host cluster referenced twice, COPIED flag iff \
         refcount 1, nothing mapped beyond the virtual size, stored refcount == computed references for every cluster (no \
         under-count, no leak). Non-trivial: the checker ran at least once after the history allocated or freed a cluster \
         (a write or a discard that released a cluster). Distinct = distinct decoded case."
            .into()
    }
    fn assumptions(&self) -> Vec<String> {
        seq_assumptions()
    }
    fn domains(&self) -> Vec<Box<dyn Domain>> {
        vec![
        Box::new(SeqDomain {
            name: "seq",
            quick: 5_000,
            thorough: 200_000,
            profile: || Profile {
                op_weights: [45, 8, 16, 12, 2, 7, 10],
                ..Profile::default()
            },
            cfg: || SeqCfg {
                sweep: false,
                check_on_flush: true,
                reopen_on_flush: false,
                mapping_check: false,
                align: false,
                final_flush: true,
                release_check: true,
                ..SeqCfg::default()
            },
            owns: |v| matches!(v.rule, Rule::CheckCorrupt | Rule::CheckUnder | Rule::CheckLeak),
            nontrivial: |r, _| r.stats.checker_runs > 0 && (r.stats.writes + r.stats.discard_freed) > 0,
            tweak: force_final_flush,
            case_tags: no_tags,
            extra_classes: no_classes,
            max_sched: 200,
            max_extra: 24,
        }),
        // compressed runs: hundreds of compressed clusters packed into a long run of host clusters,
        // small refcount-block slices, single-block writes all over them: every copy-on-write
        // releases the one or two host clusters its compressed data overlapped, some of them at
        // refcount-slice and refcount-block boundaries
        Box::new(SeqDomain {
            name: "comp",
            quick: 2_500,
            thorough: 80_000,
            profile: || Profile {
                max_ops: 40,
                op_weights: [70, 4, 6, 12, 1, 3, 4],
                cb_weights: [80, 20, 0, 0, 0, 0],
                max_cluster_bits: 10,
                order_weights: Some([0, 1, 1, 2, 10, 26, 60]),
                max_clusters: 900,
                vsize_weights: [0, 5, 95, 0],
                max_write_clusters: 2,
                depth_weights: [100, 0, 0, 0],
                formatted_pct: 0,
                kind_weights: [12, 8, 0, 0, 80],
                kinds_cycle: true,
                small_rb_slices_pct: 85,
                sched_pct: 10,
                ..Profile::default()
            },
            cfg: || SeqCfg {
                sweep: false,
                check_on_flush: true,
                reopen_on_flush: false,
                mapping_check: false,
                align: false,
                final_flush: true,
                release_check: true,
                ..SeqCfg::default()
            },
            owns: |v| matches!(v.rule, Rule::CheckCorrupt | Rule::CheckUnder | Rule::CheckLeak),
            nontrivial: |r, _| r.stats.checker_runs > 0 && r.stats.cow_writes > 0,
            tweak: force_final_flush,
            case_tags: no_tags,
            extra_classes: no_classes,
            max_sched: 200,
            max_extra: 24,
        }),
        // fragmentation: hundreds of small clusters, long writes and discards, refcount blocks made
        // of many 512-byte slices (64..256 clusters each), so that allocations have to be pieced
        // together from the free tail of one slice and the next slice, retried and given back
        Box::new(SeqDomain {
            name: "frag",
            quick: 12_000,
            thorough: 400_000,
            profile: frag_profile,
            cfg: || SeqCfg {
                sweep: false,
                check_on_flush: true,
                reopen_on_flush: false,
                mapping_check: false,
                align: false,
                final_flush: true,
                release_check: true,
                ..SeqCfg::default()
            },
            owns: |v| matches!(v.rule, Rule::CheckCorrupt | Rule::CheckUnder | Rule::CheckLeak),
            nontrivial: |r, _| r.stats.checker_runs > 0 && (r.stats.writes + r.stats.discard_freed) > 0,
            tweak: frag_history,
            case_tags: no_tags,
            extra_classes: no_classes,
            max_sched: 200,
            max_extra: 24,
        })]
    }
}

// ------------------------------------------------------------------------------------ C10
pub struct C10;

fn make_read_only(c: &mut SeqCase, _raw: &RawCase, _m: u8, _e: &Exclusions) {
    c.read_only = true;
    c.ops.retain(|o| matches!(o, Op::Read { .. } | Op::Reopen { .. } | Op::Fsync));
}

impl Prop for C10 {
    fn id(&self) -> &'static str {
        "C10"
    }
    fn level(&self) -> &'static str {
        "exploration"
    }
    fn rule_text(&self) -> String {
        "Domain cow: images with backing chains (depth 1..3, backing shorter/equal/longer, other cluster sizes) and compressed \
         clusters; histories dominated by partial and straddling writes over backing-provided and compressed clusters, mixed \
         with reads, discards, flushes and reopen. Oracle: flat reference disk (zeros beyond a shorter backing image) for reads \
         and sweeps of clusters that were copied on write, immediately and after flush + reopen from copied bytes; after flush \
         the independent checker must show the host clusters of every replaced compressed cluster neither leaked nor \
         under-counted; request-log monitor: no write/zero/punch request ever reaches a backing file. Domain ro: the same chains \
         opened read-only, any reads: no modifying request reaches any file. Non-trivial (cow): a partial write hit a \
         backing-provided or compressed cluster and a later explicit read covered that cluster; (ro): a read returned non-zero \
         initial content through a read-only chain. Distinct = distinct decoded case."
            .into()
    }
    fn assumptions(&self) -> Vec<String> {
        seq_assumptions()
    }
    fn domains(&self) -> Vec<Box<dyn Domain>> {
        vec![
            Box::new(SeqDomain {
                name: "seq",
                quick: 5_000,
                thorough: 200_000,
                profile: || Profile {
                    op_weights: [45, 30, 6, 7, 1, 4, 7],
                    depth_weights: [25, 45, 20, 10],
                    formatted_pct: 0,
                    kind_weights: [35, 15, 7, 8, 35],
                    ..Profile::default()
                },
                cfg: || SeqCfg {
                    sweep: true,
                    check_on_flush: true,
                    reopen_on_flush: true,
                    mapping_check: false,
                    align: false,
                    final_flush: true,
                    release_check: false,
                    ..SeqCfg::default()
                },
                owns: |v| match v.rule {
                    Rule::RoWrite => true,
                    Rule::ReadData | Rule::Frame | Rule::Reopen | Rule::ReadLen => v.has_tag("cow_done"),
                    Rule::CheckLeak | Rule::CheckUnder => v.has_tag("replaced_compressed_host"),
                    _ => false,
                },
                nontrivial: |r, _| r.stats.cow_writes > 0 && r.stats.reads_after_cow > 0,
                tweak: no_tweak,
                case_tags: no_tags,
                extra_classes: |r, c| {
                    let mut v = vec![];
                    if r.stats.cow_writes > 0 && r.stats.flushes > 0 {
                        v.push("cow_then_flush".into());
                    }
                    if c.layers.len() > 1 && c.layers[1].vsize() < c.layers[0].vsize() {
                        v.push("backing_shorter_than_top".into());
                    }
                    v
                },
                max_sched: 200,
                max_extra: 0,
            }),
            Box::new(SeqDomain {
                name: "ro",
                quick: 2_000,
                thorough: 60_000,
                profile: || Profile {
                    op_weights: [0, 90, 0, 0, 3, 0, 7],
                    depth_weights: [30, 40, 20, 10],
                    formatted_pct: 0,
                    ..Profile::default()
                },
                cfg: || SeqCfg {
                    sweep: false,
                    check_on_flush: false,
                    reopen_on_flush: false,
                    mapping_check: true,
                    align: false,
                    final_flush: false,
                    release_check: false,
                    ..SeqCfg::default()
                },
                owns: |v| v.rule == Rule::RoWrite,
                nontrivial: |r, _| r.stats.reads_of_initial_nonzero > 0,
                tweak: make_read_only,
                case_tags: no_tags,
                extra_classes: no_classes,
                max_sched: 100,
                max_extra: 0,
            }),
        ]
    }
}

// ------------------------------------------------------------------------------------ C11
pub struct C11;

impl Prop for C11 {
    fn id(&self) -> &'static str {
        "C11"
    }
    fn level(&self) -> &'static str {
        "exploration"
    }
    fn rule_text(&self) -> String {
        "Generated: discard(offset, len) with arguments built from boundary classes (cluster aligned, off by one block, \
         zero length, straddling, reaching/crossing/beyond the virtual size, near u64::MAX) over every cluster state \
         (unallocated, data, zero flag, zero + preallocation, compressed, backing-provided, already discarded) in images with and \
         without backing, embedded in write/read/flush/reopen histories. Oracle: the call returns Ok; model rule: whole \
         clusters inside the clipped range that had their own uncompressed allocation read zeros, everything else is unchanged \
         (full sweep after every discard); after flush the independent checker shows no released host cluster still counted \
         (leak) and nothing under-counted; the result persists over flush + reopen from copied bytes. Non-trivial: the discard \
         released at least one allocated cluster or its arguments were in a boundary class. Distinct = distinct decoded case."
            .into()
    }
    fn assumptions(&self) -> Vec<String> {
        seq_assumptions()
    }
    fn domains(&self) -> Vec<Box<dyn Domain>> {
        vec![Box::new(SeqDomain {
            name: "seq",
            quick: 8_000,
            thorough: 300_000,
            profile: || Profile {
                op_weights: [32, 14, 34, 8, 1, 4, 7],
                depth_weights: [50, 35, 12, 3],
                ..Profile::default()
            },
            cfg: || SeqCfg {
                sweep: true,
                check_on_flush: true,
                reopen_on_flush: true,
                mapping_check: false,
                align: false,
                final_flush: true,
                release_check: true,
                ..SeqCfg::default()
            },
            owns: |v| match v.rule {
                Rule::DiscardErr => true,
                Rule::Frame => v.has_tag("after:discard"),
                // the full read right after a discard fails or comes back short
                Rule::ReadLen | Rule::ApiErr => v.has_tag("sweep") && v.has_tag("after:discard"),
                Rule::ReadData | Rule::Reopen => v.has_tag("kind:Discarded"),
                Rule::CheckLeak | Rule::CheckUnder => v.has_tag("discarded_host"),
                Rule::Panic | Rule::Deadlock | Rule::Budget => v.has_tag("discard"),
                _ => false,
            },
            nontrivial: |r, _| r.stats.discard_freed > 0 || r.stats.discard_boundary > 0,
            case_tags: no_tags,
            tweak: |c, raw, _, _| {
                // add extreme-argument discards (no effect expected beyond the model rule)
                let vs = c.layers[0].vsize();
                let cs = 1u64 << c.layers[0].cluster_bits();
                for (i, e) in raw.extra.iter().take(4).enumerate() {
                    let (off, len) = match e % 8 {
                        0 => (0, 0),
                        1 => (vs, cs),
                        2 => (vs - 512, u64::MAX),
                        3 => (u64::MAX, u64::MAX),
                        4 => (u64::MAX - 511, 512),
                        5 => (0, u64::MAX),
                        6 => (vs.saturating_sub(cs), cs + 1),
                        _ => (1, cs * 2),
                    };
                    let pos = std::cmp::min(c.ops.len(), (i * 5) + (*e as usize >> 13));
                    c.ops.insert(pos, Op::Discard { off, len });
                }
            },
            extra_classes: no_classes,
            max_sched: 200,
            max_extra: 4,
        })]
    }
}

// ------------------------------------------------------------------------------------ C16
pub struct C16;

impl Prop for C16 {
    fn id(&self) -> &'static str {
        "C16"
    }
    fn level(&self) -> &'static str {
        "exploration"
    }
    fn rule_text(&self) -> String {
        "Generated: C01/C10/C12-style histories (compressed images with byte-granular descriptors, tables placed at any \
         cluster, backing chains, growth of refcount structures incl. header rewrites) for every block size 512..4096 and \
         every legal cluster/slice size, with 4096-aligned caller buffers. Oracle (monitor on every backend request of every \
         file of the chain): offset % bs == 0, len % bs == 0, buffer address % bs == 0. Non-trivial: the history issued at \
         least one metadata or compressed-read request (shorter than a cluster) with bs > 512, or a header write. Distinct = \
         distinct decoded case."
            .into()
    }
    fn assumptions(&self) -> Vec<String> {
        seq_assumptions()
    }
    fn domains(&self) -> Vec<Box<dyn Domain>> {
        vec![Box::new(SeqDomain {
            name: "seq",
            quick: 6_000,
            thorough: 200_000,
            profile: || Profile {
                kind_weights: [25, 25, 8, 7, 35],
                depth_weights: [55, 30, 10, 5],
                // headers listing fewer L1 entries than needed: the first write beyond them
                // rewrites the header (in-place growth only, see C12's known finding)
                l1_short_pct: 20,
                ..Profile::default()
            },
            cfg: || SeqCfg {
                sweep: false,
                check_on_flush: false,
                reopen_on_flush: false,
                mapping_check: false,
                align: true,
                final_flush: true,
                release_check: false,
                ..SeqCfg::default()
            },
            owns: |v| v.rule == Rule::Align,
            nontrivial: |r, _| r.stats.meta_requests_bs_gt_512 > 0 || r.stats.header_writes > 0,
            case_tags: no_tags,
            tweak: |c, raw, _, _| {
                // a backend without hole punching (every punch request is refused): the library
                // falls back to writing zeros, and those writes have to be aligned as well
                if super::c12::l1_short_overflows(c) {
                    if let crate::case::LayerSpec::Built(b) = &mut c.layers[0] {
                        b.l1_short = false;
                        c.excluded.push(super::c12::K_L1_GROWTH.to_string());
                    }
                }
                if raw.head.last().copied().unwrap_or(0) % 100 < 35 {
                    c.faults = Some(crate::sim::FaultPlan {
                        punch_unsupported: true,
                        ..Default::default()
                    });
                }
            },
            extra_classes: no_classes,
            max_sched: 200,
            max_extra: 0,
        })]
    }
}
