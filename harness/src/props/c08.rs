//! C08 Host clusters have exactly one owner; allocator never double-allocates
use super::seqdom::*;
use crate::case::*;
use crate::engine::*;
use crate::exec::{self, Stop};
use crate::gen::{self, raw_strategy, weighted1, Profile, RawCase, Src};
use crate::runner::*;
use crate::sim::{ABuf, World};
use crate::spec::checker::{self, Mode};
use crate::spec::layout::*;
use proptest::strategy::{BoxedStrategy, Strategy};
use qcow2_rs::meta::MappingSource;
use serde::{Deserialize, Serialize};
use serde_json::Value;
use std::cell::RefCell;
use std::collections::{BTreeMap, BTreeSet};

pub struct C08;

fn own(v: Violation) -> Violation {
    v.tag("c08")
}

// ---------------------------------------------------------------------------------------
// (a) allocator histories through the hooks
// ---------------------------------------------------------------------------------------

#[derive(Clone, Debug, Serialize, Deserialize, PartialEq)]
pub enum AOp {
    Alloc(usize),
    /// free (part of) the k-th live run: (k, skip, count) interpreted modulo what exists
    Free(u16, u16, u16),
    Flush,
    Shrink,
    Reopen(DevParams),
    /// several allocations issued concurrently under the executor
    ConcAlloc(Vec<usize>),
}

#[derive(Clone, Debug, Serialize, Deserialize)]
pub struct AllocCase {
    pub layer: LayerSpec,
    pub params: DevParams,
    pub ops: Vec<AOp>,
    pub sched: Vec<u16>,
}

fn alloc_profile() -> Profile {
    Profile {
        cb_weights: [40, 25, 15, 15, 5, 0],
        max_cluster_bits: 14,
        max_clusters: 48,
        depth_weights: [100, 0, 0, 0],
        formatted_pct: 60,
        kind_weights: [40, 40, 5, 5, 10],
        ..Profile::default()
    }
}

fn decode_alloc(raw: &RawCase) -> AllocCase {
    let p = alloc_profile();
    let (layers, params, max_bs, used) = gen::gen_layers_params(raw, &p);
    let cb = layers[0].cluster_bits();
    let order = layers[0].refcount_order();
    let mut s = Src::new(&raw.head[std::cmp::min(used, raw.head.len())..]);
    // refblock-slice entry count, to aim allocations at slice / block boundaries
    let rb_bits = params.rb.map(|x| x.0).unwrap_or(std::cmp::min(12, cb));
    let slice_entries = ((1usize << (rb_bits + 3)) >> order).max(1);
    let _ = &mut s;
    let mut ops = Vec::new();
    for r in raw.ops.iter().take(40) {
        let op = match weighted1(r[0], &[46, 26, 8, 4, 6, 10]) {
            0 => {
                let n = match weighted1(r[1], &[40, 25, 15, 10, 10]) {
                    0 => 1,
                    1 => 2 + gen::pick1(r[2], 6),
                    2 => std::cmp::min(slice_entries, 200).saturating_sub(gen::pick1(r[2], 3)).max(1),
                    3 => std::cmp::min(slice_entries + 1 + gen::pick1(r[2], 4), 300),
                    _ => 1 + gen::pick1(r[2], 64),
                };
                AOp::Alloc(n)
            }
            1 => AOp::Free(r[1], r[2], r[3]),
            2 => AOp::Flush,
            3 => AOp::Shrink,
            4 => {
                let mut ps = Src::new(&r[1..]);
                AOp::Reopen(gen::gen_params(&mut ps, cb, max_bs, 30))
            }
            _ => {
                let k = 2 + gen::pick1(r[1], 3);
                AOp::ConcAlloc((0..k).map(|i| 1 + gen::pick1(r[2 + i], 5)).collect())
            }
        };
        ops.push(op);
    }
    AllocCase {
        layer: layers[0].clone(),
        params,
        ops,
        sched: raw.sched.clone(),
    }
}

#[derive(Default)]
struct AllocStats {
    allocs: usize,
    frees: usize,
    free_then_alloc: usize,
    reused: usize,
    conc: usize,
    new_refblocks: usize,
    flush_compares: usize,
    evicted_conc: bool,
}

fn run_alloc(case: &AllocCase) -> (Option<Violation>, Option<String>, AllocStats) {
    let mut st = AllocStats::default();
    let layers = match build_layers(std::slice::from_ref(&case.layer)) {
        Ok(l) => l,
        Err(e) => return (None, Some(e.msg), st),
    };
    let world = World::new();
    world.add_file(&layer_name(0), layers.bytes[0].clone());
    match run_alloc_inner(case, &world, &layers.bytes[0], &mut st) {
        Ok(()) => (None, None, st),
        Err(mut v) => {
            if st.evicted_conc {
                v.tags.push("hist:eviction_during_concurrency".into());
            }
            (Some(v), None, st)
        }
    }
}

fn run_alloc_inner(case: &AllocCase, world: &World, initial: &[u8], st: &mut AllocStats) -> Result<(), Violation> {
    let rep0 = checker::check(initial, Mode::Strict);
    if !rep0.ok(Mode::Strict) {
        return Err(Violation::new(Rule::Setup, "initial image inconsistent"));
    }
    let h = rep0.header.clone().unwrap();
    let cb = h.cluster_bits;
    let cs = h.cluster_size();
    // model: refcount per host cluster
    let mut model: BTreeMap<u64, u64> = rep0.refs.clone();
    let mut live: Vec<(u64, usize)> = Vec::new(); // (first cluster, count) handed out, not freed
    let mut freed_once: BTreeSet<u64> = BTreeSet::new();
    let mut params = case.params.clone();
    let mut dev = match open_chain(world, 0, &params, false) {
        Ok(Ok(d)) => d,
        Ok(Err(e)) => return Err(Violation::new(Rule::ApiErr, format!("open failed: {e}")).tag("open")),
        Err(p) => return Err(Violation::new(Rule::Panic, format!("open panicked: {p}")).tag("open")),
    };
    let mut sched = Sched::new(None);
    let mut cursor = 0usize;
    let mut known_refblocks: BTreeSet<u64> = BTreeSet::new();
    if let Some((_, _, _, rt)) = dev.verif_top_tables() {
        for e in rt {
            if e != 0 {
                known_refblocks.insert(e >> cb);
            }
        }
    }
    let mut after_free = false;

    // account for refblocks the allocator created for itself
    let sync_refblocks = |dev: &Dev, model: &mut BTreeMap<u64, u64>, known: &mut BTreeSet<u64>, st: &mut AllocStats| -> Result<(), Violation> {
        if let Some((_, _, _, rt)) = dev.verif_top_tables() {
            for e in rt {
                if e != 0 && known.insert(e >> cb) {
                    let c = e >> cb;
                    if model.get(&c).copied().unwrap_or(0) != 0 {
                        return Err(own(Violation::new(Rule::Ownership, format!("a new refcount block was placed on host cluster {c}, which is in use (refcount {})", model[&c]))));
                    }
                    *model.entry(c).or_insert(0) += 1;
                    st.new_refblocks += 1;
                }
            }
        }
        Ok(())
    };
    let check_run = |off: u64, cnt: usize, want: usize, model: &BTreeMap<u64, u64>, live: &[(u64, usize)], what: &str| -> Result<(), Violation> {
        if cnt == 0 || cnt > want {
            return Err(own(Violation::new(Rule::Ownership, format!("{what}: returned a run of {cnt} clusters for a request of {want}"))));
        }
        if off % cs != 0 || off == 0 {
            return Err(own(Violation::new(Rule::Ownership, format!("{what}: returned offset {off:#x} is not a usable cluster offset"))));
        }
        let first = off >> cb;
        for c in first..first + cnt as u64 {
            let r = model.get(&c).copied().unwrap_or(0);
            if r != 0 {
                let holder = live.iter().find(|(f, n)| c >= *f && c < *f + *n as u64);
                return Err(own(Violation::new(
                    Rule::Ownership,
                    format!(
                        "{what}: handed out host cluster {c} whose refcount is {r}{}",
                        if holder.is_some() { " (still owned by an earlier allocation)" } else { " (in use by the image)" }
                    ),
                )));
            }
        }
        Ok(())
    };

    for (i, op) in case.ops.iter().enumerate() {
        match op {
            AOp::Alloc(n) => {
                let r = match drive(world, &mut sched, dev.verif_alloc(*n)) {
                    Driven::Done(r) => r,
                    Driven::Panic(p) => return Err(Violation::new(Rule::Panic, format!("allocate_clusters({n}) panicked: {p}")).at(i).tag(format!("panic:{}", panic_site(&p)))),
                    Driven::Deadlock => return Err(Violation::new(Rule::Deadlock, format!("allocate_clusters({n}) blocked forever")).at(i)),
                    Driven::Budget => return Err(Violation::new(Rule::Budget, format!("allocate_clusters({n}) exceeded the budget")).at(i)),
                };
                sync_refblocks(&dev, &mut model, &mut known_refblocks, st).map_err(|v| v.at(i))?;
                match r {
                    Ok(Some((off, cnt))) => {
                        check_run(off, cnt, *n, &model, &live, &format!("allocate_clusters({n})")).map_err(|v| v.at(i))?;
                        let first = off >> cb;
                        for c in first..first + cnt as u64 {
                            *model.entry(c).or_insert(0) += 1;
                            if freed_once.remove(&c) {
                                st.reused += 1;
                            }
                        }
                        live.push((first, cnt));
                        st.allocs += 1;
                        if after_free {
                            st.free_then_alloc += 1;
                        }
                    }
                    Ok(None) => return Err(own(Violation::new(Rule::Ownership, format!("allocate_clusters({n}) returned nothing although host space is unlimited")).at(i))),
                    Err(e) => return Err(Violation::new(Rule::ApiErr, format!("allocate_clusters({n}) failed: {e:?}")).at(i)),
                }
            }
            AOp::ConcAlloc(ns) => {
                let results: RefCell<Vec<(usize, Result<Option<(u64, usize)>, String>)>> = RefCell::new(Vec::new());
                let mut tasks: Vec<Option<exec::Task>> = Vec::new();
                for (t, n) in ns.iter().enumerate() {
                    let dev = &dev;
                    let results = &results;
                    let n = *n;
                    tasks.push(Some(Box::pin(async move {
                        let r = dev.verif_alloc(n).await.map_err(|e| format!("{e:?}"));
                        results.borrow_mut().push((t, r));
                    })));
                }
                let rest: &[u16] = if cursor < case.sched.len() { &case.sched[cursor..] } else { &[] };
                qcow2_rs::cache::verif_set_tick_budget(TICK_BUDGET);
                let ev0 = qcow2_rs::cache::verif_evictions();
                let stt = exec::run_tasks(world, tasks, rest, 400_000);
                qcow2_rs::cache::verif_set_tick_budget(u64::MAX);
                if qcow2_rs::cache::verif_evictions() > ev0 {
                    st.evicted_conc = true;
                }
                cursor += stt.choices_used;
                match stt.stop {
                    Stop::AllDone => {}
                    Stop::Deadlock(b) => return Err(Violation::new(Rule::Deadlock, format!("concurrent allocations {ns:?}: tasks {b:?} blocked forever")).at(i)),
                    Stop::Budget => return Err(Violation::new(Rule::Budget, format!("concurrent allocations {ns:?} exceeded the budget")).at(i)),
                    Stop::Panic(t, m) => return Err(Violation::new(Rule::Panic, format!("concurrent allocation task {t} panicked: {m}")).at(i).tag(format!("panic:{}", panic_site(&m)))),
                }
                sync_refblocks(&dev, &mut model, &mut known_refblocks, st).map_err(|v| v.at(i))?;
                let res = results.into_inner();
                for (t, r) in res {
                    match r {
                        Ok(Some((off, cnt))) => {
                            // checked against the model that already contains the runs of the other
                            // requesters of this batch: overlap = handed out twice
                            check_run(off, cnt, ns[t], &model, &live, &format!("concurrent allocate_clusters({}) by task {t}", ns[t])).map_err(|v| v.at(i))?;
                            let first = off >> cb;
                            for c in first..first + cnt as u64 {
                                *model.entry(c).or_insert(0) += 1;
                                freed_once.remove(&c);
                            }
                            live.push((first, cnt));
                            st.allocs += 1;
                        }
                        Ok(None) => return Err(own(Violation::new(Rule::Ownership, "concurrent allocate_clusters returned nothing").at(i))),
                        Err(e) => return Err(Violation::new(Rule::ApiErr, format!("concurrent allocate_clusters failed: {e}")).at(i)),
                    }
                }
                st.conc += 1;
            }
            AOp::Free(k, skip, count) => {
                if live.is_empty() {
                    continue;
                }
                let idx = gen::pick1(*k, live.len());
                let (first, cnt) = live[idx];
                let sk = gen::pick1(*skip, cnt);
                let n = 1 + gen::pick1(*count, cnt - sk);
                let whole = sk == 0 && n == cnt;
                let off = (first + sk as u64) << cb;
                match drive(world, &mut sched, dev.verif_free(off, n)) {
                    Driven::Done(Ok(())) => {}
                    Driven::Done(Err(e)) => return Err(Violation::new(Rule::ApiErr, format!("free_clusters({off:#x}, {n}) failed: {e:?}")).at(i)),
                    Driven::Panic(p) => return Err(Violation::new(Rule::Panic, format!("free_clusters({off:#x}, {n}) panicked: {p}")).at(i).tag(format!("panic:{}", panic_site(&p)))),
                    _ => return Err(Violation::new(Rule::Deadlock, format!("free_clusters({off:#x}, {n}) did not complete")).at(i)),
                }
                for c in (first + sk as u64)..(first + sk as u64 + n as u64) {
                    let e = model.entry(c).or_insert(0);
                    *e = e.saturating_sub(1);
                    freed_once.insert(c);
                }
                // keep the remaining parts live
                live.remove(idx);
                if !whole {
                    if sk > 0 {
                        live.push((first, sk));
                    }
                    if sk + n < cnt {
                        live.push((first + (sk + n) as u64, cnt - sk - n));
                    }
                }
                st.frees += 1;
                after_free = true;
            }
            AOp::Flush | AOp::Shrink | AOp::Reopen(_) => {
                let r = if matches!(op, AOp::Shrink) { drive(world, &mut sched, dev.shrink_caches()) } else { drive(world, &mut sched, dev.flush_meta()) };
                match r {
                    Driven::Done(Ok(())) => {}
                    Driven::Done(Err(e)) => return Err(Violation::new(Rule::ApiErr, format!("flush failed: {e:?}")).at(i)),
                    Driven::Panic(p) => return Err(Violation::new(Rule::Panic, format!("flush panicked: {p}")).at(i)),
                    _ => return Err(Violation::new(Rule::Deadlock, "flush did not complete").at(i)),
                }
                // the file's stored refcounts must equal the model
                let bytes = world.bytes(0);
                let hh = parse_header(&bytes).map_err(|e| own(Violation::new(Rule::Ownership, format!("header unreadable after flush: {e}")).at(i)))?;
                let upto = std::cmp::max(model.keys().next_back().copied().unwrap_or(0) + 2, (bytes.len() as u64).div_ceil(cs));
                for c in 0..upto {
                    let want = model.get(&c).copied().unwrap_or(0);
                    let got = checker::stored_refcount(&bytes, &hh, c).unwrap_or(0);
                    if want != got {
                        return Err(own(Violation::new(Rule::Ownership, format!("after flush host cluster {c} has stored refcount {got}, the allocation history says {want}")).at(i)));
                    }
                }
                st.flush_compares += 1;
                if let AOp::Reopen(np) = op {
                    drop(dev);
                    params = np.clone();
                    dev = match open_chain(world, 0, &params, false) {
                        Ok(Ok(d)) => d,
                        Ok(Err(e)) => return Err(Violation::new(Rule::ReopenOpen, format!("reopen failed: {e}")).at(i)),
                        Err(p) => return Err(Violation::new(Rule::Panic, format!("reopen panicked: {p}")).at(i)),
                    };
                }
            }
        }
        // in-RAM refcounts (where cached) agree with the model
        let hi = model.keys().next_back().copied().unwrap_or(0) + 2;
        for c in 0..hi {
            if let Some(r) = dev.verif_refcount(c << cb) {
                let want = model.get(&c).copied().unwrap_or(0);
                if r != want {
                    return Err(own(Violation::new(Rule::Ownership, format!("in-RAM refcount of host cluster {c} is {r}, the allocation history says {want} (after {op:?})")).at(i)));
                }
            }
        }
    }
    drop(dev);
    Ok(())
}

struct AllocDomain;

impl Domain for AllocDomain {
    fn name(&self) -> &'static str {
        "allocator"
    }
    fn cases(&self, tier: Tier) -> u64 {
        match tier {
            Tier::Quick => 20_000,
            Tier::Thorough => 800_000,
        }
    }
    fn strategy(&self, _tier: Tier) -> BoxedStrategy<RawCase> {
        raw_strategy(12, 40, 200, 0).boxed()
    }
    fn decode(&self, raw: &RawCase, _excl: &Exclusions) -> Value {
        serde_json::to_value(decode_alloc(raw)).unwrap()
    }
    fn run(&self, case: &Value, _excl: &Exclusions) -> CaseResult {
        let c: AllocCase = serde_json::from_value(case.clone()).unwrap();
        let (v, inc, st) = run_alloc(&c);
        let verdict = match (v, inc) {
            (Some(v), _) => {
                if v.has_tag("c08") {
                    Verdict::Violation(v)
                } else {
                    Verdict::Foreign(v)
                }
            }
            (None, Some(m)) => Verdict::Inconclusive(m),
            _ => Verdict::Pass,
        };
        let mut classes = Vec::new();
        let mut add = |b: bool, s: &str| {
            if b {
                classes.push(s.to_string());
            }
        };
        add(st.free_then_alloc > 0, "alloc_after_free");
        add(st.reused > 0, "freed_cluster_reused");
        add(st.conc > 0, "concurrent_allocations");
        add(st.new_refblocks > 0, "allocator_created_refblock");
        add(st.flush_compares > 0, "stored_refcounts_compared");
        classes.push(format!("refcount_order:{}", c.layer.refcount_order()));
        CaseResult {
            verdict,
            nontrivial: st.free_then_alloc > 0,
            classes,
            excluded: vec![],
            counters: vec![("allocations".into(), st.allocs as u64), ("frees".into(), st.frees as u64)],
        }
    }
}

// ---------------------------------------------------------------------------------------
// (b) ownership at quiescent points of device histories
// ---------------------------------------------------------------------------------------

#[derive(Clone, Copy, Debug, PartialEq, Eq)]
enum Owner {
    Header,
    L1,
    RefTable,
    RefBlock,
    L2(u64),
    Data(u64),
    Compressed(u64),
}

/// Every host cluster has at most one owner and its (in-RAM, else on-file) refcount equals the
/// number of owners.
pub fn ownership_check(world: &World, dev: &Dev, guest_clusters: u64) -> Result<usize, Violation> {
    let info = &dev.info;
    let cb = info.cluster_bits() as u32;
    let cs = info.cluster_size() as u64;
    let Some((l1_off, l1, rt_off, rt)) = dev.verif_top_tables() else {
        return Ok(0);
    };
    let bytes = world.bytes(0);
    let hh = match parse_header(&bytes) {
        Ok(h) => h,
        Err(_) => return Ok(0),
    };
    let mut owners: BTreeMap<u64, Vec<Owner>> = BTreeMap::new();
    owners.entry(0).or_default().push(Owner::Header);
    if let Some(o) = l1_off {
        // clusters of the on-disk L1 table as the header describes it
        let n = std::cmp::max((hh.l1_size as u64 * 8).div_ceil(cs), 1);
        for c in 0..n {
            owners.entry((o >> cb) + c).or_default().push(Owner::L1);
        }
    }
    if let Some(o) = rt_off {
        for c in 0..std::cmp::max(hh.refcount_table_clusters as u64, 1) {
            owners.entry((o >> cb) + c).or_default().push(Owner::RefTable);
        }
    }
    for e in rt.iter() {
        if *e != 0 {
            owners.entry((e & !0x1ff) >> cb).or_default().push(Owner::RefBlock);
        }
    }
    for (i, e) in l1.iter().enumerate() {
        let o = e & OFF_MASK;
        if o != 0 {
            owners.entry(o >> cb).or_default().push(Owner::L2(i as u64));
        }
    }
    let mut sched = Sched::new(None);
    for g in 0..guest_clusters {
        let m = match drive(world, &mut sched, dev.get_mapping(g * cs)) {
            Driven::Done(Ok(m)) => m,
            _ => continue,
        };
        match m.source {
            MappingSource::DataFile | MappingSource::Zero => {
                if let Some(o) = m.cluster_offset {
                    if o != 0 {
                        owners.entry(o >> cb).or_default().push(Owner::Data(g));
                    }
                }
            }
            MappingSource::Compressed => {
                if let (Some(o), Some(l)) = (m.cluster_offset, m.compressed_length) {
                    for c in compressed_host_clusters(o, l as u64, cb) {
                        owners.entry(c).or_default().push(Owner::Compressed(g));
                    }
                }
            }
            _ => {}
        }
    }
    for (c, os) in owners.iter() {
        let all_compressed = os.iter().all(|o| matches!(o, Owner::Compressed(_)));
        if os.len() > 1 && !all_compressed {
            return Err(own(Violation::new(Rule::Ownership, format!("host cluster {c} has {} owners: {:?}", os.len(), os)).tag("double_owner")));
        }
        let rc = dev.verif_refcount(c << cb).or_else(|| checker::stored_refcount(&bytes, &hh, *c)).unwrap_or(0);
        if rc != os.len() as u64 {
            return Err(own(Violation::new(Rule::Ownership, format!("host cluster {c} is owned by {:?} but its refcount is {rc}", os)).tag("refcount_vs_owners")));
        }
    }
    Ok(owners.len())
}

// ---------------------------------------------------------------------------------------
// (c) bounded growth under write/discard cycles
// ---------------------------------------------------------------------------------------

#[derive(Clone, Debug, Serialize, Deserialize)]
pub struct GrowthCase {
    pub layer: LayerSpec,
    pub params: DevParams,
    /// working set: (guest cluster, clusters) ranges
    pub ranges: Vec<(u64, u64)>,
    pub cycles: usize,
    pub flush_every: usize,
}

fn decode_growth(raw: &RawCase) -> GrowthCase {
    let p = Profile {
        cb_weights: [30, 25, 20, 20, 5, 0],
        max_cluster_bits: 14,
        max_clusters: 64,
        depth_weights: [100, 0, 0, 0],
        formatted_pct: 70,
        partial_tail: false,
        ..Profile::default()
    };
    let (layers, params, _m, used) = gen::gen_layers_params(raw, &p);
    let mut s = Src::new(&raw.head[std::cmp::min(used, raw.head.len())..]);
    let cs = 1u64 << layers[0].cluster_bits();
    let n = layers[0].vsize() / cs;
    let k = 1 + s.pick(4);
    let mut ranges = Vec::new();
    for _ in 0..k {
        if n == 0 {
            break;
        }
        let g = s.pick(n as usize) as u64;
        let l = 1 + s.pick(std::cmp::min(n - g, 8) as usize) as u64;
        ranges.push((g, l));
    }
    GrowthCase {
        layer: layers[0].clone(),
        params,
        ranges,
        cycles: 4 + s.pick(5),
        flush_every: s.pick(3),
    }
}

fn run_growth(case: &GrowthCase) -> (Option<Violation>, Option<String>, bool) {
    let layers = match build_layers(std::slice::from_ref(&case.layer)) {
        Ok(l) => l,
        Err(e) => return (None, Some(e.msg), false),
    };
    if case.ranges.is_empty() {
        return (None, None, false);
    }
    let world = World::new();
    world.add_file(&layer_name(0), layers.bytes[0].clone());
    let dev = match open_chain(&world, 0, &case.params, false) {
        Ok(Ok(d)) => d,
        Ok(Err(e)) => return (Some(Violation::new(Rule::ApiErr, format!("open failed: {e}"))), None, false),
        Err(p) => return (Some(Violation::new(Rule::Panic, format!("open panicked: {p}"))), None, false),
    };
    let cs = 1u64 << case.layer.cluster_bits();
    let mut sched = Sched::new(None);
    let ws: u64 = case.ranges.iter().map(|r| r.1).sum::<u64>() * cs;
    let n = case.cycles;
    let mut len_after_n = 0usize;
    for cycle in 0..3 * n {
        for (g, l) in &case.ranges {
            let mut data = ABuf::new((l * cs) as usize, 0);
            crate::pat::fill(&mut data, crate::pat::Pat { id: cycle as u32 + 1, sparse: false }, g * cs);
            match drive(&world, &mut sched, dev.write_at(&data, g * cs)) {
                Driven::Done(Ok(())) => {}
                Driven::Done(Err(e)) => return (Some(Violation::new(Rule::ApiErr, format!("write failed in cycle {cycle}: {e:?}"))), None, false),
                Driven::Panic(p) => return (Some(Violation::new(Rule::Panic, format!("write panicked in cycle {cycle}: {p}"))), None, false),
                _ => return (Some(Violation::new(Rule::Deadlock, "write did not complete")), None, false),
            }
        }
        if case.flush_every > 0 && cycle % case.flush_every == 0 {
            let _ = drive(&world, &mut sched, dev.flush_meta());
        }
        for (g, l) in &case.ranges {
            match drive(&world, &mut sched, dev.discard(g * cs, l * cs)) {
                Driven::Done(Ok(())) => {}
                Driven::Done(Err(e)) => return (Some(Violation::new(Rule::DiscardErr, format!("discard failed in cycle {cycle}: {e:?}"))), None, false),
                Driven::Panic(p) => return (Some(Violation::new(Rule::Panic, format!("discard panicked in cycle {cycle}: {p}"))), None, false),
                _ => return (Some(Violation::new(Rule::Deadlock, "discard did not complete")), None, false),
            }
        }
        if cycle + 1 == n {
            len_after_n = world.file_len(0);
        }
    }
    let len_end = world.file_len(0);
    // slack: one working set plus a few clusters of metadata
    let bound = len_after_n as u64 + ws + 8 * cs;
    if len_end as u64 > bound {
        return (
            Some(own(
                Violation::new(
                    Rule::Ownership,
                    format!(
                        "host file keeps growing under write/discard cycles over a fixed working set of {ws} bytes: {len_after_n} bytes after {n} cycles, {len_end} after {} (bound {bound})",
                        3 * n
                    ),
                )
                .tag("unbounded_growth"),
            )),
            None,
            true,
        );
    }
    (None, None, true)
}

struct GrowthDomain;

impl Domain for GrowthDomain {
    fn name(&self) -> &'static str {
        "reuse"
    }
    fn cases(&self, tier: Tier) -> u64 {
        match tier {
            Tier::Quick => 600,
            Tier::Thorough => 20_000,
        }
    }
    fn strategy(&self, _tier: Tier) -> BoxedStrategy<RawCase> {
        raw_strategy(8, 0, 0, 0).boxed()
    }
    fn decode(&self, raw: &RawCase, _excl: &Exclusions) -> Value {
        serde_json::to_value(decode_growth(raw)).unwrap()
    }
    fn run(&self, case: &Value, _excl: &Exclusions) -> CaseResult {
        let c: GrowthCase = serde_json::from_value(case.clone()).unwrap();
        let (v, inc, nt) = run_growth(&c);
        let verdict = match (v, inc) {
            (Some(v), _) => {
                if v.has_tag("c08") {
                    Verdict::Violation(v)
                } else {
                    Verdict::Foreign(v)
                }
            }
            (None, Some(m)) => Verdict::Inconclusive(m),
            _ => Verdict::Pass,
        };
        CaseResult {
            verdict,
            nontrivial: nt && c.cycles >= 4,
            classes: vec![format!("cycles:{}", 3 * c.cycles), format!("ranges:{}", c.ranges.len())],
            excluded: vec![],
            counters: vec![],
        }
    }
}

impl Prop for C08 {
    fn id(&self) -> &'static str {
        "C08"
    }
    fn level(&self) -> &'static str {
        "exploration"
    }
    fn rule_text(&self) -> String {
        "Domain allocator (through the verif-hooks wrappers of the crate-private allocator): histories of Alloc(n) / Free(run or \
         part of a run) / Flush / Shrink / Reopen / several allocations issued concurrently under the executor, with n aimed at \
         refblock-slice and refblock boundaries, every refcount width and slice size. Oracle: a model refcount per host cluster \
         seeded from the independent checker: every returned run is non-empty, no longer than requested, cluster aligned, consists \
         only of clusters whose model refcount is 0 (so it overlaps neither the image's own clusters nor a run handed out and not \
         yet freed, including runs of concurrent requesters), in-RAM refcounts (hook) equal the model after every step and the \
         file's stored refcounts equal it after every flush; refcount blocks the allocator creates for itself must land on free \
         clusters. Domain seq: C01-style device histories with the ownership monitor after every operation: the owners of every \
         host cluster (header, L1, refcount table, refcount blocks, L2 tables from the in-RAM tables; data / compressed clusters \
         from get_mapping) must be unique and their number must equal the in-RAM (else on-file) refcount. Domain reuse: N cycles \
         of write-working-set / discard-working-set: the host file after 3N cycles may exceed the length after N cycles by at \
         most one working set (+8 clusters). Non-trivial: (allocator) an allocation after a free; (seq) a cluster changed owner \
         (discard or rewrite); (reuse) N >= 4."
            .into()
    }
    fn assumptions(&self) -> Vec<String> {
        vec![
            "ownership between quiescent points of concurrent histories is observed only through the allocator domain's concurrent requests".into(),
            "the in-RAM refcount hook reads cached slices only; uncached clusters are compared with the stored refcount".into(),
        ]
    }
    fn domains(&self) -> Vec<Box<dyn Domain>> {
        vec![
            Box::new(AllocDomain),
            Box::new(SeqDomain {
                name: "seq",
                quick: 3_000,
                thorough: 120_000,
                profile: || Profile {
                    op_weights: [45, 5, 22, 10, 1, 7, 10],
                    max_clusters: 40,
                    max_cluster_bits: 16,
                    ..Profile::default()
                },
                cfg: || SeqCfg {
                    sweep: false,
                    check_on_flush: false,
                    reopen_on_flush: false,
                    mapping_check: false,
                    align: false,
                    final_flush: true,
                    release_check: false,
                    ownership: true,
                    ..SeqCfg::default()
                },
                owns: |v| v.rule == Rule::Ownership,
                nontrivial: |r, _| r.stats.ownership_checks > 0 && (r.stats.discard_freed > 0 || r.stats.cow_writes > 0),
                tweak: no_tweak,
                case_tags: no_tags,
                extra_classes: no_classes,
                max_sched: 200,
                max_extra: 0,
            }),
            // fragmentation histories (see C03): the ownership map is evaluated after every operation
            // while allocations are pieced together across refcount-block slices and refcount blocks
            Box::new(SeqDomain {
                name: "frag",
                quick: 1_500,
                thorough: 60_000,
                profile: || Profile {
                    max_clusters: 400,
                    ..super::seqprops::frag_profile()
                },
                cfg: || SeqCfg {
                    sweep: false,
                    check_on_flush: false,
                    reopen_on_flush: false,
                    mapping_check: false,
                    align: false,
                    final_flush: true,
                    release_check: false,
                    ownership: true,
                    ..SeqCfg::default()
                },
                owns: |v| v.rule == Rule::Ownership,
                nontrivial: |r, _| r.stats.ownership_checks > 0 && r.stats.writes > 0,
                tweak: |c, raw, _, _| super::seqprops::frag_ops(c, raw),
                case_tags: no_tags,
                extra_classes: no_classes,
                max_sched: 200,
                max_extra: 0,
            }),
            Box::new(GrowthDomain),
        ]
    }
}
