//! Generic sequential-history domain: generator profile + monitor configuration + ownership.
use super::common::*;
use crate::case::SeqCase;
use crate::engine::{SeqCfg, SeqRun, Violation};
use crate::gen::{self, raw_strategy, Profile, RawCase};
use crate::runner::*;
use proptest::strategy::{BoxedStrategy, Strategy};
use serde_json::Value;

pub struct SeqDomain {
    pub name: &'static str,
    pub quick: u64,
    pub thorough: u64,
    pub profile: fn() -> Profile,
    pub cfg: fn() -> SeqCfg,
    pub owns: fn(&Violation) -> bool,
    pub nontrivial: fn(&SeqRun, &SeqCase) -> bool,
    /// adjust the decoded case (force a final flush, add reopen params, make read-only, ...)
    pub tweak: fn(&mut SeqCase, &RawCase, u8, &Exclusions),
    /// static tags of the case, attached to every violation (case predicates of known findings)
    pub case_tags: fn(&SeqCase) -> Vec<String>,
    pub extra_classes: fn(&SeqRun, &SeqCase) -> Vec<String>,
    pub max_sched: usize,
    pub max_extra: usize,
}

pub fn no_tweak(_c: &mut SeqCase, _r: &RawCase, _m: u8, _e: &Exclusions) {}
pub fn no_tags(_c: &SeqCase) -> Vec<String> {
    vec![]
}
pub fn no_classes(_r: &SeqRun, _c: &SeqCase) -> Vec<String> {
    vec![]
}

impl Domain for SeqDomain {
    fn name(&self) -> &'static str {
        self.name
    }
    fn cases(&self, tier: Tier) -> u64 {
        match tier {
            Tier::Quick => self.quick,
            Tier::Thorough => self.thorough,
        }
    }
    fn strategy(&self, _tier: Tier) -> BoxedStrategy<RawCase> {
        raw_strategy(24, (self.profile)().max_ops, self.max_sched, self.max_extra).boxed()
    }
    fn decode(&self, raw: &RawCase, excl: &Exclusions) -> Value {
        let d = gen::decode_seq(raw, &(self.profile)());
        let mut case = d.case;
        (self.tweak)(&mut case, raw, d.max_bs_bits, excl);
        serde_json::to_value(case).unwrap()
    }
    fn run(&self, case: &Value, _excl: &Exclusions) -> CaseResult {
        let case = match case_from_value(case) {
            Ok(c) => c,
            Err(r) => return r,
        };
        let owns = self.owns;
        let tags = (self.case_tags)(&case);
        let (run, verdict) = run_owned(&case, &(self.cfg)(), &|v| owns(v));
        let verdict = match verdict {
            Verdict::Violation(mut v) => {
                v.tags.extend(tags.iter().cloned());
                Verdict::Violation(v)
            }
            o => o,
        };
        let mut classes = seq_classes(&run.stats, &case);
        classes.extend((self.extra_classes)(&run, &case));
        CaseResult {
            verdict,
            nontrivial: (self.nontrivial)(&run, &case),
            classes,
            excluded: case.excluded.clone(),
            counters: vec![],
        }
    }
}
