//! C12 Metadata growth (refblocks, refcount table, L1) is correct and crash-safe
use super::crashprops::CrashDomain;
use super::seqdom::*;
use crate::case::{Op, SeqCase};
use crate::crash::CrashCfg;
use crate::engine::{Rule, SeqCfg};
use crate::gen::{self, Profile, RawCase};
use crate::runner::*;

pub struct C12;

/// Small-capacity geometries: a refcount block covers 32 KiB .. 1 MiB of host file and one
/// refcount-table cluster 64..256 refcount blocks, so modest histories cross both limits.
pub fn growth_profile() -> Profile {
    Profile {
        max_ops: 40,
        op_weights: [70, 4, 8, 8, 1, 3, 6],
        cb_weights: [60, 30, 10, 0, 0, 0],
        max_cluster_bits: 11,
        order_weights: Some([1, 1, 2, 3, 8, 25, 60]),
        max_clusters: 6000,
        max_write_clusters: 1200,
        depth_weights: [85, 12, 3, 0],
        formatted_pct: 35,
        kind_weights: [70, 20, 3, 2, 5],
        l1_short_pct: 30,
        default_cache_pct: 40,
        partial_tail: true,
        ..Profile::default()
    }
}

pub const K_REFTABLE_GROWTH: &str = "C12-refcount-table-growth";
pub const K_L1_GROWTH: &str = "C12-l1-growth";

/// clusters covered by the refcount table the image starts with
fn initial_reftable_coverage(c: &SeqCase) -> Option<u64> {
    let built = crate::engine::build_layers(&c.layers[..1]).ok()?;
    let h = crate::spec::layout::parse_header(&built.bytes[0]).ok()?;
    Some(h.refcount_table_clusters as u64 * h.cluster_size() / 8 * h.rb_entries())
}

/// host clusters the history can need at most: every guest cluster once plus metadata
fn host_need_bound(c: &SeqCase) -> u64 {
    let cs = 1u64 << c.layers[0].cluster_bits();
    let g = c.layers[0].vsize().div_ceil(cs);
    g + g / 8 + g / (cs / 8) + 96
}

/// l1_short image whose L1 table cannot be extended in place: the entries the virtual size needs
/// occupy more clusters than the table the header describes
pub fn l1_short_overflows(c: &SeqCase) -> bool {
    match &c.layers[0] {
        crate::case::LayerSpec::Built(s) if s.l1_short => {}
        _ => return false,
    }
    let built = match crate::engine::build_layers(&c.layers[..1]) {
        Ok(b) => b,
        Err(_) => return true,
    };
    let h = match crate::spec::layout::parse_header(&built.bytes[0]) {
        Ok(h) => h,
        Err(_) => return true,
    };
    let cs = h.cluster_size();
    let owned = std::cmp::max((h.l1_size as u64 * 8).div_ceil(cs), 1);
    let needed = h.size.div_ceil(cs).div_ceil(cs / 8);
    (needed * 8).div_ceil(cs) > owned
}

fn case_tags(c: &SeqCase) -> Vec<String> {
    let mut t = Vec::new();
    if l1_short_overflows(c) {
        t.push("image:l1_short".to_string());
    }
    if let Some(cov) = initial_reftable_coverage(c) {
        if host_need_bound(c) >= cov {
            t.push("size:beyond_initial_reftable_coverage".to_string());
        }
    }
    t
}

/// virtual sizes large enough that the host file outgrows the initial refcount structures
fn enlarge(c: &mut SeqCase, raw: &RawCase, max_bs_bits: u8, excl: &Exclusions) {
    use crate::case::LayerSpec;
    let no_rt_growth = excl.is_active(K_REFTABLE_GROWTH);
    let no_l1_growth = excl.is_active(K_L1_GROWTH);
    let cb = c.layers[0].cluster_bits();
    let cs = 1u64 << cb;
    let order = c.layers[0].refcount_order();
    // clusters covered by one refcount block / one refcount-table cluster
    let rbe = (cs * 8) >> order;
    let rt_cover = (cs / 8) * rbe;
    let k = raw.extra.first().copied().unwrap_or(0);
    let mut want = match gen::weighted1(k, &[30, 40, 30]) {
        0 => rbe * 3 + 7,
        1 => rt_cover + rt_cover / 4,
        _ => 2 * rt_cover + 13,
    };
    want = std::cmp::min(want, 16_000);
    let unit = 1u64 << max_bs_bits;
    let set_size = |c: &mut SeqCase, clusters: u64, force: bool| {
        let vsize = std::cmp::max((clusters * cs) / unit * unit, unit);
        match &mut c.layers[0] {
            LayerSpec::Formatted { vsize: v, .. } => {
                if force || *v < vsize {
                    *v = vsize
                }
            }
            LayerSpec::Built(s) => {
                if force || s.vsize < vsize {
                    s.vsize = vsize;
                }
            }
        }
    };
    set_size(c, want, false);
    if no_rt_growth {
        // stay inside what the initial refcount table covers
        for _ in 0..12 {
            match initial_reftable_coverage(c) {
                Some(cov) if host_need_bound(c) >= cov => {
                    let g = c.layers[0].vsize().div_ceil(cs);
                    let smaller = std::cmp::max(g * 2 / 3, 4);
                    set_size(c, smaller, true);
                    if !c.excluded.iter().any(|e| e == K_REFTABLE_GROWTH) {
                        c.excluded.push(K_REFTABLE_GROWTH.to_string());
                    }
                }
                _ => break,
            }
        }
    }
    // L1 growth beyond the clusters the short table owns is a known finding; growth inside them
    // (the header's l1_size is extended in place) stays in the domain
    if no_l1_growth && l1_short_overflows(c) {
        if let LayerSpec::Built(s) = &mut c.layers[0] {
            s.l1_short = false;
            c.excluded.push(K_L1_GROWTH.to_string());
        }
    }
    // re-target the writes: march through the virtual disk
    let vs = c.layers[0].vsize();
    let mut pos = 0u64;
    for (i, op) in c.ops.iter_mut().enumerate() {
        match op {
            Op::Write { off, len, .. } => {
                let maxlen = std::cmp::min(std::cmp::min(1200 * cs, 1 << 20), vs);
                let maxlen = std::cmp::max(maxlen / unit * unit, unit);
                let mut l = maxlen / 2 + (i as u64 * 7919 * unit) % (maxlen / 2 + 1);
                l = std::cmp::max(l / unit * unit, unit);
                if i % 5 != 4 {
                    if pos + l > vs {
                        pos = 0;
                    }
                    l = std::cmp::min(l, vs - pos);
                    l = std::cmp::max(l / unit * unit, unit);
                    *off = pos;
                    *len = l as usize;
                    pos = (pos + l + (i as u64 % 3) * cs) / unit * unit;
                    if pos >= vs {
                        pos = 0;
                    }
                } else {
                    *off = std::cmp::min(*off / unit * unit, vs - unit);
                    *len = std::cmp::max(std::cmp::min(*len as u64 / unit * unit, vs - *off), unit) as usize;
                }
            }
            Op::Read { off, len } => {
                *off = std::cmp::min(*off / unit * unit, vs - unit);
                *len = std::cmp::max(std::cmp::min(*len as u64 / unit * unit, vs - *off), unit) as usize;
            }
            _ => {}
        }
    }
}

/// `enlarge` with both growth known findings treated as active whatever the registry says (for
/// other properties that borrow this domain: the findings are C12's, the shapes are removed)
pub fn enlarge_within_initial_tables(c: &mut SeqCase, raw: &RawCase, max_bs_bits: u8) {
    let mk = |id: &str| -> Finding {
        serde_json::from_value(serde_json::json!({"id": id, "property": "C12", "status": "known", "what": ""})).unwrap()
    };
    let excl = Exclusions {
        active: vec![mk(K_REFTABLE_GROWTH), mk(K_L1_GROWTH)],
        ..Exclusions::default()
    };
    enlarge(c, raw, max_bs_bits, &excl);
}

fn enlarge_crash(c: &mut SeqCase, raw: &RawCase, _m: u8, excl: &Exclusions) {
    // crash histories keep every payload in memory: smaller writes, same geometry rules.
    // The vsize of crash cases is a multiple of 4096 only if the generator chose so; use the
    // largest block size the case can have seen.
    let bs_bits = std::cmp::max(c.params.bs_bits, 9);
    let align = if c.layers[0].vsize() % 4096 == 0 { 12 } else { bs_bits };
    enlarge(c, raw, align, excl);
    let cs = 1u64 << c.layers[0].cluster_bits();
    let unit = 1u64 << align;
    for op in c.ops.iter_mut() {
        if let Op::Write { len, .. } = op {
            let cap = std::cmp::max(64 * cs / unit * unit, unit);
            if *len as u64 > cap {
                *len = cap as usize;
            }
        }
    }
}

impl Prop for C12 {
    fn id(&self) -> &'static str {
        "C12"
    }
    fn level(&self) -> &'static str {
        "exploration"
    }
    fn rule_text(&self) -> String {
        "Generated: geometries with small capacity (512 B .. 2 KiB clusters, mostly 32/64-bit refcounts: one refcount block covers \
         32 KiB .. 1 MiB of host file, one refcount-table cluster 64 .. 256 blocks), images formatted by the library or built \
         independently (incl. headers whose l1_size is smaller than the virtual size needs), virtual sizes of 3 refcount blocks up \
         to more than two refcount-table clusters' coverage, histories of long marching writes (up to 1 MiB each) mixed with \
         discards, flushes and reopen. Oracle (domain seq): every write within the virtual size returns Ok - no Err, panic, \
         deadlock or budget overrun; reads/sweeps equal the reference disk (C01), flush + reopen preserves content (C02), the \
         independent strict checker accepts the file after every flush (C03). Domain crash: C04's crash-image families over the \
         same histories judged by the crash-safe checker, and C05's durability rule. A rule of C01..C05 is attributed to C12 \
         only when the refcount structures or the L1 table actually grew before it broke. Non-trivial: the run created a new \
         refcount block, changed the refcount table (size/offset) or changed the L1 table."
            .into()
    }
    fn assumptions(&self) -> Vec<String> {
        vec![
            "limits: the refcount table is bounded by 8 MiB and the L1 table by 32 MiB; the generated sizes stay far below both".into(),
            "the simulated host file is capped at 1 GiB (never reached by these histories)".into(),
        ]
    }
    fn domains(&self) -> Vec<Box<dyn Domain>> {
        vec![
            Box::new(SeqDomain {
                name: "seq",
                quick: 500,
                thorough: 20_000,
                profile: growth_profile,
                cfg: || SeqCfg {
                    sweep: true,
                    sweep_limit: 256 << 10,
                    check_on_flush: true,
                    reopen_on_flush: true,
                    mapping_check: false,
                    align: false,
                    final_flush: true,
                    release_check: false,
                    track_growth: true,
                    ..SeqCfg::default()
                },
                owns: |v| match v.rule {
                    Rule::ApiErr | Rule::Panic | Rule::Deadlock | Rule::Budget => v.has_tag("write") || v.has_tag("flush") || v.has_tag("growth:refblock") || v.has_tag("growth:reftable") || v.has_tag("growth:l1"),
                    _ => v.has_tag("growth:refblock") || v.has_tag("growth:reftable") || v.has_tag("growth:l1"),
                },
                nontrivial: |r, _| r.growth.new_refblocks > 0 || r.growth.reftable_changed || r.growth.l1_changed,
                tweak: enlarge,
                case_tags,
                extra_classes: |r, _| {
                    let mut v = vec![];
                    if r.growth.new_refblocks > 0 {
                        v.push("new_refblock".into());
                    }
                    if r.growth.new_refblocks >= 8 {
                        v.push("new_refblocks_ge8".into());
                    }
                    if r.growth.reftable_changed {
                        v.push("reftable_grown_or_relocated".into());
                    }
                    if r.growth.l1_changed {
                        v.push("l1_grown_or_relocated".into());
                    }
                    v
                },
                max_sched: 200,
                max_extra: 4,
            }),
            Box::new(CrashDomain {
                name: "crash",
                quick: 120,
                thorough: 4_000,
                profile: || Profile {
                    max_ops: 16,
                    sched_pct: 10,
                    ..growth_profile()
                },
                cfg: || CrashCfg {
                    check_safe: true,
                    check_durable: true,
                    max_points: 50,
                    max_subset_k: 5,
                    torn_per_point: 2,
                    max_images: 160,
                },
                force_syncs: true,
                tweak: enlarge_crash,
                case_tags,
                owns: |v| v.has_tag("crash") && (v.has_tag("growth:refblock") || v.has_tag("growth:reftable") || v.has_tag("growth:l1")),
                nontrivial: |r| r.stats.nontrivial_images > 0 && (r.growth.new_refblocks > 0 || r.growth.reftable_changed || r.growth.l1_changed),
            }),
        ]
    }
}
