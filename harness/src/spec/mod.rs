pub mod builder;
pub mod checker;
pub mod layout;
pub mod reader;
