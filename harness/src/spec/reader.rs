//! Independent reader: guest content of an image (zero-extended file), optionally on top
//! of a backing content.
use super::layout::*;

/// Inflate a raw-deflate stream into exactly `cs` bytes (shorter output is zero padded)
pub fn inflate_cluster(src: &[u8], cs: usize) -> Result<Vec<u8>, String> {
    use miniz_oxide::inflate::core::{decompress, inflate_flags, DecompressorOxide};
    use miniz_oxide::inflate::TINFLStatus;
    let mut out = vec![0u8; cs];
    let mut d = DecompressorOxide::new();
    let (st, _in, _n) = decompress(
        &mut d,
        src,
        &mut out,
        0,
        inflate_flags::TINFL_FLAG_USING_NON_WRAPPING_OUTPUT_BUF,
    );
    match st {
        TINFLStatus::Done | TINFLStatus::HasMoreOutput => Ok(out),
        e => Err(format!("inflate: {e:?}")),
    }
}

fn slice_z(b: &[u8], off: u64, len: u64) -> Vec<u8> {
    let mut v = vec![0u8; len as usize];
    let s = std::cmp::min(off, b.len() as u64) as usize;
    let e = std::cmp::min(off.saturating_add(len), b.len() as u64) as usize;
    v[..e - s].copy_from_slice(&b[s..e]);
    v
}

/// Guest content (exactly `size` bytes). `backing` is the guest content of the backing
/// image (any length; zeros beyond its end).
pub fn read_guest(bytes: &[u8], backing: Option<&[u8]>) -> Result<Vec<u8>, String> {
    let h = parse_header(bytes)?;
    if let Some(r) = unsupported_reason(&h) {
        return Err(format!("unsupported: {r}"));
    }
    let cs = h.cluster_size();
    let l2e = h.l2_entries();
    let n = h.guest_clusters();
    let mut out = vec![0u8; (n * cs) as usize];
    for g in 0..n {
        let dst = &mut out[(g * cs) as usize..((g + 1) * cs) as usize];
        let i = g / l2e;
        let mut entry = 0u64;
        if i < h.l1_size as u64 {
            let l1e = be64_z(bytes, h.l1_table_offset + i * 8);
            let l2off = l1e & OFF_MASK;
            if l2off != 0 {
                entry = be64_z(bytes, l2off + (g % l2e) * 8);
            }
        }
        match l2_decode(entry, h.cluster_bits, h.version)? {
            L2Kind::Unalloc => {
                if let Some(b) = backing {
                    let s = std::cmp::min((g * cs) as usize, b.len());
                    let e = std::cmp::min(((g + 1) * cs) as usize, b.len());
                    dst[..e - s].copy_from_slice(&b[s..e]);
                }
            }
            L2Kind::Zero { .. } => {}
            L2Kind::Data { off, .. } => dst.copy_from_slice(&slice_z(bytes, off, cs)),
            L2Kind::Compressed { off, len, .. } => {
                let src = slice_z(bytes, off, len);
                dst.copy_from_slice(&inflate_cluster(&src, cs as usize)?);
            }
        }
    }
    out.truncate(h.size as usize);
    Ok(out)
}
