//! Image builder: `ImageSpec -> (file bytes, ground truth)`. Produces spec-valid qcow2
//! images with arbitrary placement, consistent by construction (refcounts are computed
//! from references).
use super::layout::*;
use crate::pat::{self, Pat};
use serde::{Deserialize, Serialize};

#[derive(Clone, Copy, Debug, PartialEq, Eq, Serialize, Deserialize)]
pub enum CKind {
    Unalloc,
    /// standard data cluster, pattern id seed, sparse family?
    Data(u8, bool),
    /// zero flag, no allocation (v3)
    ZeroFlag,
    /// zero flag with preallocated host cluster (v3)
    ZeroPrealloc,
    /// deflate-compressed cluster
    Compressed(u8),
}

#[derive(Clone, Debug, PartialEq, Eq, Serialize, Deserialize)]
pub struct ImageSpec {
    pub version: u8,
    pub cluster_bits: u8,
    pub refcount_order: u8,
    pub vsize: u64,
    /// one entry per guest cluster (missing tail entries = Unalloc)
    pub clusters: Vec<CKind>,
    pub backing: Option<String>,
    pub ext_backing_fmt: bool,
    pub ext_feature_table: bool,
    pub ext_unknown: Option<(u32, Vec<u8>)>,
    /// header l1_size = needed + l1_extra
    pub l1_extra: u32,
    /// header l1_size covers only the L2 tables that exist (may be smaller than the
    /// virtual size needs) - used by the growth property only
    pub l1_short: bool,
    /// extra clusters appended to the refcount table
    pub rt_extra: u32,
    /// refcount table sized minimally in *entries used* but placed directly before
    /// allocated clusters (nothing special needed: placement decides)
    /// placement choices (consumed by monotone picks; empty = canonical order)
    pub order: Vec<u16>,
    /// insert a free cluster after every n-th placed item (0 = never)
    pub gap_every: u8,
    /// pack compressed blobs at sector granularity instead of byte granularity
    pub comp_sector_align: bool,
    /// base for pattern ids of this layer
    pub id_base: u32,
    /// free host clusters (refcount 0) appended behind the last used one and filled, like the
    /// layout gaps, with recognisable garbage: what a reused or never-zeroed cluster would expose
    #[serde(default)]
    pub stale_tail: u8,
    /// header_length of a version 3 header if it is not the usual 112 (0 = usual)
    #[serde(default)]
    pub hdr_len: u16,
}

#[derive(Clone, Debug)]
pub struct Truth {
    pub cluster_size: usize,
    pub vsize: u64,
    /// effective kind per guest cluster (after v2 normalisation)
    pub kinds: Vec<CKind>,
    /// guest content of this layer alone (unallocated clusters hold zeros)
    pub content: Vec<u8>,
    /// host byte offset for Data/ZeroPrealloc/Compressed clusters
    pub host: Vec<Option<u64>>,
    /// compressed byte length as defined by the descriptor
    pub comp_len: Vec<Option<u64>>,
    pub header: Hdr,
    /// number of host clusters in the file
    pub host_clusters: u64,
    /// host clusters left free on purpose
    pub gaps: Vec<u64>,
}

impl ImageSpec {
    pub fn simple(cluster_bits: u8, refcount_order: u8, vsize: u64) -> Self {
        ImageSpec {
            version: 3,
            cluster_bits,
            refcount_order,
            vsize,
            clusters: vec![],
            backing: None,
            ext_backing_fmt: false,
            ext_feature_table: false,
            ext_unknown: None,
            l1_extra: 0,
            l1_short: false,
            rt_extra: 0,
            order: vec![],
            gap_every: 0,
            comp_sector_align: false,
            id_base: 0x4000_0000,
            stale_tail: 0,
            hdr_len: 0,
        }
    }
    pub fn guest_clusters(&self) -> u64 {
        self.vsize.div_ceil(1u64 << self.cluster_bits)
    }
    pub fn kind(&self, i: u64) -> CKind {
        let k = self.clusters.get(i as usize).copied().unwrap_or(CKind::Unalloc);
        if self.version < 3 {
            match k {
                CKind::ZeroFlag | CKind::ZeroPrealloc => CKind::Unalloc,
                k => k,
            }
        } else {
            k
        }
    }
    pub fn pat_of(&self, gcl: u64, seed: u8, sparse: bool) -> Pat {
        let _ = gcl;
        Pat {
            id: self.id_base + seed as u32,
            sparse,
        }
    }
}

enum Item {
    L1(u64),
    RefTable(u64),
    RefBlock(u64),
    L2(u64),
    Data(u64),
    CompRun(u64),
}

impl Item {
    fn clusters(&self) -> u64 {
        match self {
            Item::L1(n) | Item::RefTable(n) | Item::CompRun(n) => *n,
            _ => 1,
        }
    }
}

fn deflate_raw(data: &[u8]) -> Vec<u8> {
    miniz_oxide::deflate::compress_to_vec(data, 6)
}

pub fn build(spec: &ImageSpec) -> Result<(Vec<u8>, Truth), String> {
    let cb = spec.cluster_bits as u32;
    if !(9..=21).contains(&cb) {
        return Err("cluster_bits".into());
    }
    let version = spec.version as u32;
    let order = if version == 2 { 4 } else { spec.refcount_order as u32 };
    if order > 6 {
        return Err("refcount_order".into());
    }
    let cs = 1u64 << cb;
    let l2e = cs / 8;
    let rbe = cs * 8 / (1u64 << order);
    let n_guest = spec.guest_clusters();
    let n_l1_needed = std::cmp::max(n_guest.div_ceil(l2e), 1);

    // guest content + compressed blobs
    let mut kinds: Vec<CKind> = (0..n_guest).map(|i| spec.kind(i)).collect();
    let mut content = vec![0u8; (n_guest * cs) as usize];
    let mut blobs: Vec<(u64, Vec<u8>)> = Vec::new();
    for g in 0..n_guest {
        let r = (g * cs) as usize..((g + 1) * cs) as usize;
        match kinds[g as usize] {
            CKind::Data(seed, sparse) => pat::fill(&mut content[r], spec.pat_of(g, seed, sparse), g * cs),
            CKind::Compressed(seed) => {
                pat::fill(&mut content[r.clone()], spec.pat_of(g, seed, false), g * cs);
                let z = deflate_raw(&content[r]);
                if z.len() as u64 >= cs {
                    // not compressible enough for this cluster size: store as plain data
                    kinds[g as usize] = CKind::Data(seed, false);
                } else {
                    blobs.push((g, z));
                }
            }
            _ => {}
        }
    }
    // the guest sees only `vsize` bytes; the file holds whole clusters
    let full = content.clone();
    content.truncate(spec.vsize as usize);

    // L2 tables needed
    let mut l2_needed: Vec<u64> = Vec::new();
    for i in 0..n_l1_needed {
        let lo = i * l2e;
        let hi = std::cmp::min(n_guest, lo + l2e);
        if (lo..hi).any(|g| kinds[g as usize] != CKind::Unalloc) {
            l2_needed.push(i);
        }
    }
    let l1_size = if spec.l1_short {
        std::cmp::max(l2_needed.last().map(|x| x + 1).unwrap_or(1), 1)
    } else {
        n_l1_needed + spec.l1_extra as u64
    };
    let l1_clusters = std::cmp::max((l1_size * 8).div_ceil(cs), 1);

    // compressed run layout (relative byte offsets inside the run)
    // A host cluster gets one reference per compressed cluster overlapping it, so narrow
    // refcounts limit how many blobs may share one host cluster.
    let rc_cap = rc_max(order);
    let mut rel = Vec::new();
    let mut pos = 0u64;
    let mut per_cluster: std::collections::BTreeMap<u64, u64> = std::collections::BTreeMap::new();
    for (_, z) in &blobs {
        if spec.comp_sector_align {
            pos = pos.div_ceil(512) * 512;
        }
        loop {
            let nb = (pos + z.len() as u64 - 1) / 512 - pos / 512;
            let len = (nb + 1) * 512 - (pos & 511);
            let first = pos >> cb;
            let last = (pos + len - 1) >> cb;
            if (first..=last).all(|c| per_cluster.get(&c).copied().unwrap_or(0) < rc_cap) {
                for c in first..=last {
                    *per_cluster.entry(c).or_insert(0) += 1;
                }
                break;
            }
            pos = ((pos >> cb) + 1) << cb;
        }
        rel.push(pos);
        pos += z.len() as u64;
    }
    let comp_clusters = pos.div_ceil(cs);

    let n_data = kinds
        .iter()
        .filter(|k| matches!(k, CKind::Data(..) | CKind::ZeroPrealloc))
        .count() as u64;

    // iterate on the number of refblocks
    let mut n_rb = 1u64;
    let (placement, gaps, total, rt_clusters) = loop {
        let rt_clusters = std::cmp::max((n_rb * 8).div_ceil(cs), 1) + spec.rt_extra as u64;
        let mut items: Vec<Item> = Vec::new();
        items.push(Item::RefTable(rt_clusters));
        for i in 0..n_rb {
            items.push(Item::RefBlock(i));
        }
        items.push(Item::L1(l1_clusters));
        for &i in &l2_needed {
            items.push(Item::L2(i));
        }
        for g in 0..n_guest {
            if matches!(kinds[g as usize], CKind::Data(..) | CKind::ZeroPrealloc) {
                items.push(Item::Data(g));
            }
        }
        if comp_clusters > 0 {
            items.push(Item::CompRun(comp_clusters));
        }
        let _ = n_data;
        // shuffle (Fisher-Yates driven by the order choices; exhausted = keep order)
        let n = items.len();
        for i in 0..n {
            let c = spec.order.get(i).copied().unwrap_or(0);
            let j = i + ((c as usize * (n - i)) >> 16);
            items.swap(i, j);
        }
        let mut next = 1u64;
        let mut gaps = Vec::new();
        let mut placement: Vec<(Item, u64)> = Vec::new();
        for (k, it) in items.into_iter().enumerate() {
            let c = it.clusters();
            placement.push((it, next));
            next += c;
            if spec.gap_every > 0 && (k + 1) % spec.gap_every as usize == 0 {
                gaps.push(next);
                next += 1;
            }
        }
        let need_rb = next.div_ceil(rbe);
        if need_rb <= n_rb {
            break (placement, gaps, next, rt_clusters);
        }
        n_rb = need_rb;
        if n_rb > 4096 {
            return Err("image too large for builder".into());
        }
    };

    let mut file = vec![0u8; (total * cs) as usize];
    let mut refs = vec![0u64; total as usize];
    refs[0] += 1; // header
    let mut l1_off = 0u64;
    let mut rt_off = 0u64;
    let mut rb_off = vec![0u64; n_rb as usize];
    let mut l2_off = std::collections::BTreeMap::new();
    let mut data_off = std::collections::BTreeMap::new();
    let mut comp_base = 0u64;
    for (it, cl) in &placement {
        match it {
            Item::L1(n) => {
                l1_off = cl * cs;
                for c in *cl..cl + n {
                    refs[c as usize] += 1;
                }
            }
            Item::RefTable(n) => {
                rt_off = cl * cs;
                for c in *cl..cl + n {
                    refs[c as usize] += 1;
                }
            }
            Item::RefBlock(i) => {
                rb_off[*i as usize] = cl * cs;
                refs[*cl as usize] += 1;
            }
            Item::L2(i) => {
                l2_off.insert(*i, cl * cs);
                refs[*cl as usize] += 1;
            }
            Item::Data(g) => {
                data_off.insert(*g, cl * cs);
                refs[*cl as usize] += 1;
            }
            Item::CompRun(_) => {
                comp_base = cl * cs;
            }
        }
    }

    let mut host: Vec<Option<u64>> = vec![None; n_guest as usize];
    let mut comp_len: Vec<Option<u64>> = vec![None; n_guest as usize];
    // compressed blobs
    let mut l2vals: Vec<u64> = vec![0; n_guest as usize];
    for (bi, (g, z)) in blobs.iter().enumerate() {
        let off = comp_base + rel[bi];
        file[off as usize..off as usize + z.len()].copy_from_slice(z);
        let nb = (off + z.len() as u64 - 1) / 512 - off / 512;
        let len = (nb + 1) * 512 - (off & 511);
        for c in compressed_host_clusters(off, len, cb) {
            // the sector span may formally reach past the run only if it ends mid-sector at
            // the very end; the run is cluster padded so it stays inside
            refs[c as usize] += 1;
        }
        host[*g as usize] = Some(off);
        comp_len[*g as usize] = Some(len);
        l2vals[*g as usize] = l2_encode(
            &L2Kind::Compressed {
                off,
                nb_sectors: nb,
                len,
            },
            cb,
        );
    }
    if order < 6 {
        let max = rc_max(order);
        if refs.iter().any(|&r| r > max) {
            return Err("refcount width too small for shared compressed clusters".into());
        }
    }
    for g in 0..n_guest {
        match kinds[g as usize] {
            CKind::Data(..) => {
                let off = data_off[&g];
                let s = (g * cs) as usize;
                file[off as usize..(off + cs) as usize].copy_from_slice(&full[s..s + cs as usize]);
                host[g as usize] = Some(off);
                l2vals[g as usize] = off | COPIED;
            }
            CKind::ZeroPrealloc => {
                let off = data_off[&g];
                // preallocated cluster holds stale data that must never be visible
                let mut stale = vec![0u8; cs as usize];
                pat::fill(&mut stale, Pat { id: spec.id_base + 0xfe, sparse: false }, g * cs);
                file[off as usize..(off + cs) as usize].copy_from_slice(&stale);
                host[g as usize] = Some(off);
                l2vals[g as usize] = off | COPIED | 1;
            }
            CKind::ZeroFlag => l2vals[g as usize] = 1,
            _ => {}
        }
    }
    // L2 tables + L1
    for (&i, &off) in &l2_off {
        for j in 0..l2e {
            let g = i * l2e + j;
            if g < n_guest {
                put64(&mut file, (off + j * 8) as usize, l2vals[g as usize]);
            }
        }
        put64(&mut file, (l1_off + i * 8) as usize, off | COPIED);
    }
    // refcount structures
    for (i, &off) in rb_off.iter().enumerate() {
        put64(&mut file, (rt_off + i as u64 * 8) as usize, off);
        let lo = i as u64 * rbe;
        let hi = std::cmp::min(total, lo + rbe);
        for c in lo..hi {
            let blk = &mut file[off as usize..(off + cs) as usize];
            rc_set(blk, order, c - lo, refs[c as usize]);
        }
    }
    // header
    let mut exts = Vec::new();
    if spec.ext_backing_fmt && spec.backing.is_some() {
        exts.push((EXT_BACKING_FMT, b"qcow2".to_vec()));
    }
    if spec.ext_feature_table {
        let mut t = Vec::new();
        for (ty, bit, name) in [(0u8, 0u8, "dirty bit"), (0, 1, "corrupt bit"), (1, 0, "lazy refcounts")] {
            let mut e = vec![0u8; 48];
            e[0] = ty;
            e[1] = bit;
            e[2..2 + name.len()].copy_from_slice(name.as_bytes());
            t.extend_from_slice(&e);
        }
        exts.push((EXT_FEATURE_TABLE, t));
    }
    if let Some((t, d)) = &spec.ext_unknown {
        if *t != EXT_END && *t != EXT_BACKING_FMT && *t != EXT_FEATURE_TABLE {
            exts.push((*t, d.clone()));
        }
    }
    let mut h = Hdr {
        version,
        backing_file_offset: 0,
        backing_file_size: 0,
        cluster_bits: cb,
        size: spec.vsize,
        crypt_method: 0,
        l1_size: l1_size as u32,
        l1_table_offset: l1_off,
        refcount_table_offset: rt_off,
        refcount_table_clusters: rt_clusters as u32,
        nb_snapshots: 0,
        snapshots_offset: 0,
        incompatible: 0,
        compatible: 0,
        autoclear: 0,
        refcount_order: order,
        header_length: if version == 2 { 72 } else if spec.hdr_len != 0 { spec.hdr_len as u32 } else { 112 },
        compression_type: 0,
        backing: spec.backing.as_ref().map(|s| s.as_bytes().to_vec()),
        exts,
    };
    let hb = ser_header(&h);
    if hb.len() as u64 > cs {
        return Err("header does not fit the first cluster".into());
    }
    file[..hb.len()].copy_from_slice(&hb);
    // garbage in every free cluster: the layout gaps and the tail
    {
        let mut stale = vec![0u8; cs as usize];
        for g in &gaps {
            pat::fill(&mut stale, Pat { id: spec.id_base + 0xfd, sparse: false }, g * cs);
            file[(g * cs) as usize..((g + 1) * cs) as usize].copy_from_slice(&stale);
        }
        for k in 0..spec.stale_tail as u64 {
            pat::fill(&mut stale, Pat { id: spec.id_base + 0xfd, sparse: false }, (total + k) * cs);
            file.extend_from_slice(&stale);
        }
    }
    // re-parse to fill in the computed offsets
    h = parse_header(&file)?;
    Ok((
        file,
        Truth {
            cluster_size: cs as usize,
            vsize: spec.vsize,
            kinds,
            content,
            host,
            comp_len,
            header: h,
            host_clusters: total,
            gaps,
        },
    ))
}
