//! Independent qcow2 consistency checker (DESIGN.md appendix A).
//! The file is treated as zero-extended: bytes beyond its end read as zeros.
use super::layout::*;
use std::collections::BTreeMap;

#[derive(Clone, Copy, Debug, PartialEq, Eq)]
pub enum Mode {
    /// exact refcounts, COPIED flags, nothing beyond the virtual size
    Strict,
    /// stored >= references, reachable tables initialised; leaks tolerated
    CrashSafe,
}

#[derive(Clone, Copy, Debug, PartialEq, Eq, PartialOrd, Ord)]
pub enum Role {
    Header,
    L1,
    RefTable,
    RefBlock,
    L2,
    Data,
    Compressed,
}

#[derive(Default, Debug, Clone)]
pub struct Report {
    pub header: Option<Hdr>,
    /// structural errors (unparsable, invalid entry, double use, flag errors)
    pub corrupt: Vec<String>,
    /// (host cluster, stored, references)
    pub undercounted: Vec<(u64, u64, u64)>,
    pub leaked: Vec<(u64, u64, u64)>,
    /// references per host cluster
    pub refs: BTreeMap<u64, u64>,
    pub roles: BTreeMap<u64, Role>,
    /// guest cluster -> decoded L2 kind (only allocated L2 tables)
    pub l2: BTreeMap<u64, L2Kind>,
    /// number of host clusters covered by refcount blocks
    pub covered: u64,
    pub l2_tables: u64,
    pub refblocks: u64,
}

impl Report {
    pub fn ok(&self, mode: Mode) -> bool {
        match mode {
            Mode::Strict => self.corrupt.is_empty() && self.undercounted.is_empty() && self.leaked.is_empty(),
            Mode::CrashSafe => self.corrupt.is_empty() && self.undercounted.is_empty(),
        }
    }
    pub fn summary(&self, mode: Mode) -> String {
        let mut s = String::new();
        if let Some(c) = self.corrupt.first() {
            s += &format!("corrupt[{}]: {}; ", self.corrupt.len(), c);
        }
        if let Some(u) = self.undercounted.first() {
            s += &format!(
                "undercounted[{}]: cluster {} stored {} refs {}; ",
                self.undercounted.len(),
                u.0,
                u.1,
                u.2
            );
        }
        if mode == Mode::Strict {
            if let Some(u) = self.leaked.first() {
                s += &format!(
                    "leaked[{}]: cluster {} stored {} refs {}; ",
                    self.leaked.len(),
                    u.0,
                    u.1,
                    u.2
                );
            }
        }
        s
    }
}

struct Ctx<'a> {
    b: &'a [u8],
    cs: u64,
    cb: u32,
    rep: Report,
}

impl<'a> Ctx<'a> {
    fn add_ref(&mut self, cluster: u64, role: Role, what: &str) {
        *self.rep.refs.entry(cluster).or_insert(0) += 1;
        match self.rep.roles.get(&cluster) {
            None => {
                self.rep.roles.insert(cluster, role);
            }
            Some(r) if *r == role && role == Role::Compressed => {}
            Some(r) => {
                self.rep.corrupt.push(format!(
                    "host cluster {} used twice: as {:?} and as {:?} ({})",
                    cluster, r, role, what
                ));
            }
        }
    }
    fn in_range(&self, off: u64) -> bool {
        off >= self.cs && off < (1u64 << 56)
    }
}

pub fn check(bytes: &[u8], mode: Mode) -> Report {
    let mut ctx = Ctx {
        b: bytes,
        cs: 0,
        cb: 0,
        rep: Report::default(),
    };
    let h = match parse_header(bytes) {
        Ok(h) => h,
        Err(e) => {
            ctx.rep.corrupt.push(format!("header: {e}"));
            return ctx.rep;
        }
    };
    if let Some(r) = unsupported_reason(&h) {
        ctx.rep.corrupt.push(format!("header: unsupported {r}"));
        ctx.rep.header = Some(h);
        return ctx.rep;
    }
    ctx.cs = h.cluster_size();
    ctx.cb = h.cluster_bits;
    let cs = ctx.cs;
    let cb = ctx.cb;
    ctx.add_ref(0, Role::Header, "header");

    // tables referenced from the header
    if !ctx.in_range(h.l1_table_offset) && !(h.l1_size == 0 && h.l1_table_offset == 0) {
        ctx.rep.corrupt.push(format!("l1_table_offset {:#x} out of range", h.l1_table_offset));
    }
    if !ctx.in_range(h.refcount_table_offset) || h.refcount_table_clusters == 0 {
        ctx.rep
            .corrupt
            .push(format!("refcount table {:#x}+{} invalid", h.refcount_table_offset, h.refcount_table_clusters));
        ctx.rep.header = Some(h);
        return ctx.rep;
    }
    if h.l1_size as u64 * 8 > (32 << 20) || h.refcount_table_clusters as u64 * cs > (8 << 20) {
        ctx.rep.corrupt.push("table larger than the format limit".into());
        ctx.rep.header = Some(h);
        return ctx.rep;
    }
    let l1_clusters = (h.l1_size as u64 * 8).div_ceil(cs);
    for c in 0..l1_clusters {
        ctx.add_ref((h.l1_table_offset >> cb) + c, Role::L1, "L1 table");
    }
    for c in 0..h.refcount_table_clusters as u64 {
        ctx.add_ref((h.refcount_table_offset >> cb) + c, Role::RefTable, "refcount table");
    }

    // refcount table -> refblocks
    let rt_entries = h.refcount_table_clusters as u64 * cs / 8;
    let rbe = h.rb_entries();
    let mut rb_of: BTreeMap<u64, u64> = BTreeMap::new(); // reftable index -> refblock offset
    for i in 0..rt_entries {
        let e = be64_z(ctx.b, h.refcount_table_offset + i * 8);
        if e == 0 {
            continue;
        }
        if e & RT_RESERVED != 0 {
            ctx.rep.corrupt.push(format!("reftable[{i}] = {e:#x}: reserved bits set"));
            continue;
        }
        if e % cs != 0 || !ctx.in_range(e) {
            ctx.rep.corrupt.push(format!("reftable[{i}] = {e:#x}: unaligned or out of range"));
            continue;
        }
        rb_of.insert(i, e);
        ctx.add_ref(e >> cb, Role::RefBlock, &format!("reftable[{i}]"));
        ctx.rep.refblocks += 1;
    }
    ctx.rep.covered = rb_of.keys().next_back().map(|i| (i + 1) * rbe).unwrap_or(0);

    // L1 -> L2 -> clusters
    let guest_clusters = h.guest_clusters();
    let l2e = h.l2_entries();
    let l1_needed = guest_clusters.div_ceil(l2e);
    let order = h.refcount_order;
    let stored = |c: u64| -> Option<u64> {
        let off = rb_of.get(&(c / rbe))?;
        let idx = c % rbe;
        // zero-extended read of the entry
        let bits = 1u64 << order;
        let byte_off = off + idx * bits / 8;
        let mut tmp = [0u8; 8];
        for (k, t) in tmp.iter_mut().enumerate() {
            let p = byte_off as usize + k;
            if p < bytes.len() {
                *t = bytes[p];
            }
        }
        Some(if bits < 8 {
            let per = 8 / bits;
            let sh = (idx % per) * bits;
            ((tmp[0] >> sh) as u64) & ((1 << bits) - 1)
        } else {
            let n = (bits / 8) as usize;
            let mut v = 0u64;
            for t in tmp.iter().take(n) {
                v = (v << 8) | *t as u64;
            }
            v
        })
    };

    let mut copied_checks: Vec<(u64, bool, String)> = Vec::new(); // (cluster, copied flag, what)
    for i in 0..h.l1_size as u64 {
        let e = be64_z(ctx.b, h.l1_table_offset + i * 8);
        if e == 0 {
            continue;
        }
        if e & L1_RESERVED != 0 {
            ctx.rep.corrupt.push(format!("L1[{i}] = {e:#x}: reserved bits set"));
            continue;
        }
        let off = e & OFF_MASK;
        if off == 0 {
            if e & COPIED != 0 {
                ctx.rep.corrupt.push(format!("L1[{i}] = {e:#x}: COPIED without offset"));
            }
            continue;
        }
        if off % cs != 0 || !ctx.in_range(off) {
            ctx.rep.corrupt.push(format!("L1[{i}] = {e:#x}: unaligned or out of range"));
            continue;
        }
        if i >= l1_needed {
            if mode == Mode::Strict {
                ctx.rep.corrupt.push(format!("L1[{i}] maps beyond the virtual size"));
            }
            // still count the reference
        }
        ctx.add_ref(off >> cb, Role::L2, &format!("L1[{i}]"));
        ctx.rep.l2_tables += 1;
        copied_checks.push((off >> cb, e & COPIED != 0, format!("L1[{i}]")));
        for j in 0..l2e {
            let g = i * l2e + j;
            let v = be64_z(ctx.b, off + j * 8);
            if v == 0 {
                continue;
            }
            let k = match l2_decode(v, cb, h.version) {
                Ok(k) => k,
                Err(m) => {
                    ctx.rep.corrupt.push(format!("L2[{i}][{j}] = {v:#x}: {m}"));
                    continue;
                }
            };
            if g >= guest_clusters && mode == Mode::Strict {
                ctx.rep.corrupt.push(format!("L2[{i}][{j}] = {v:#x} maps beyond the virtual size"));
            }
            match k {
                L2Kind::Unalloc => {}
                L2Kind::Data { off: o, copied } | L2Kind::Zero { off: o, copied } => {
                    if o != 0 {
                        if !ctx.in_range(o) {
                            ctx.rep.corrupt.push(format!("L2[{i}][{j}] = {v:#x}: offset out of range"));
                            continue;
                        }
                        ctx.add_ref(o >> cb, Role::Data, &format!("L2[{i}][{j}] guest cluster {g}"));
                        copied_checks.push((o >> cb, copied, format!("L2[{i}][{j}]")));
                    } else if copied {
                        ctx.rep.corrupt.push(format!("L2[{i}][{j}] = {v:#x}: COPIED without offset"));
                    }
                }
                L2Kind::Compressed { off: o, len, .. } => {
                    if o < cs || o + len > (1u64 << 56) {
                        ctx.rep.corrupt.push(format!("L2[{i}][{j}] = {v:#x}: compressed offset out of range"));
                        continue;
                    }
                    for c in compressed_host_clusters(o, len, cb) {
                        ctx.add_ref(c, Role::Compressed, &format!("L2[{i}][{j}] guest cluster {g} (compressed)"));
                    }
                }
            }
            if g < guest_clusters || mode != Mode::Strict {
                ctx.rep.l2.insert(g, k);
            }
        }
    }

    // refcounts
    let refs = ctx.rep.refs.clone();
    for (&c, &r) in &refs {
        let s = stored(c);
        match s {
            None => ctx.rep.undercounted.push((c, 0, r)),
            Some(s) if s < r => ctx.rep.undercounted.push((c, s, r)),
            Some(s) if s > r => ctx.rep.leaked.push((c, s, r)),
            _ => {}
        }
    }
    // clusters with a stored count but no reference: scan only non-zero bytes of each
    // refcount block (inside the file; beyond its end everything reads as zero)
    let bits = 1u64 << order;
    for (&i, &off) in rb_of.iter() {
        let lo = std::cmp::min(off as usize, bytes.len());
        let hi = std::cmp::min((off + cs) as usize, bytes.len());
        let blk = &bytes[lo..hi];
        let mut last_idx = u64::MAX;
        for (k, &byte) in blk.iter().enumerate() {
            if byte == 0 {
                continue;
            }
            let (first, n) = if bits < 8 {
                ((k as u64) * (8 / bits), 8 / bits)
            } else {
                ((k as u64) / (bits / 8), 1)
            };
            for idx in first..first + n {
                if idx == last_idx {
                    continue;
                }
                last_idx = idx;
                let c = i * rbe + idx;
                if refs.contains_key(&c) {
                    continue;
                }
                if let Some(s) = stored(c) {
                    if s > 0 {
                        ctx.rep.leaked.push((c, s, 0));
                    }
                }
            }
        }
    }
    if mode == Mode::Strict {
        for (c, copied, what) in copied_checks {
            let s = stored(c).unwrap_or(0);
            if copied != (s == 1) {
                ctx.rep
                    .corrupt
                    .push(format!("{what}: COPIED flag {copied} but refcount of cluster {c} is {s}"));
            }
        }
    }
    ctx.rep.header = Some(h);
    ctx.rep
}

/// stored refcount of one host cluster (zero-extended file); None if not covered
pub fn stored_refcount(bytes: &[u8], h: &Hdr, cluster: u64) -> Option<u64> {
    let cs = h.cluster_size();
    let rbe = h.rb_entries();
    let i = cluster / rbe;
    if i >= h.refcount_table_clusters as u64 * cs / 8 {
        return None;
    }
    let e = be64_z(bytes, h.refcount_table_offset + i * 8);
    if e == 0 || e & RT_RESERVED != 0 {
        return None;
    }
    let idx = cluster % rbe;
    let bits = 1u64 << h.refcount_order;
    let start = (e + idx * bits / 8) as usize;
    let mut tmp = [0u8; 8];
    for (k, t) in tmp.iter_mut().enumerate() {
        if start + k < bytes.len() {
            *t = bytes[start + k];
        }
    }
    Some(rc_get(&tmp, h.refcount_order, if bits < 8 { idx % (8 / bits) } else { 0 }))
}
