//! qcow2 on-disk format primitives, written from the specification text
//! (docs/interop/qcow2.txt). Shares no code with the crate under test.
use serde::{Deserialize, Serialize};

pub const MAGIC: u32 = 0x5146_49fb;
pub const EXT_END: u32 = 0;
pub const EXT_BACKING_FMT: u32 = 0xe279_2aca;
pub const EXT_FEATURE_TABLE: u32 = 0x6803_f857;

pub fn be32(b: &[u8], o: usize) -> u32 {
    u32::from_be_bytes([b[o], b[o + 1], b[o + 2], b[o + 3]])
}
pub fn be64(b: &[u8], o: usize) -> u64 {
    let mut a = [0u8; 8];
    a.copy_from_slice(&b[o..o + 8]);
    u64::from_be_bytes(a)
}
pub fn put32(b: &mut [u8], o: usize, v: u32) {
    b[o..o + 4].copy_from_slice(&v.to_be_bytes());
}
pub fn put64(b: &mut [u8], o: usize, v: u64) {
    b[o..o + 8].copy_from_slice(&v.to_be_bytes());
}

/// read a big-endian u64 from a file image that is conceptually zero-extended
pub fn be64_z(b: &[u8], o: u64) -> u64 {
    let mut a = [0u8; 8];
    for (i, x) in a.iter_mut().enumerate() {
        let p = o as u128 + i as u128;
        if p < b.len() as u128 {
            *x = b[p as usize];
        }
    }
    u64::from_be_bytes(a)
}

#[derive(Clone, Debug, PartialEq, Eq, Serialize, Deserialize)]
pub struct Hdr {
    pub version: u32,
    pub backing_file_offset: u64,
    pub backing_file_size: u32,
    pub cluster_bits: u32,
    pub size: u64,
    pub crypt_method: u32,
    pub l1_size: u32,
    pub l1_table_offset: u64,
    pub refcount_table_offset: u64,
    pub refcount_table_clusters: u32,
    pub nb_snapshots: u32,
    pub snapshots_offset: u64,
    pub incompatible: u64,
    pub compatible: u64,
    pub autoclear: u64,
    pub refcount_order: u32,
    pub header_length: u32,
    pub compression_type: u8,
    pub backing: Option<Vec<u8>>,
    /// (type, data) in file order, without the end marker
    pub exts: Vec<(u32, Vec<u8>)>,
}

impl Hdr {
    pub fn cluster_size(&self) -> u64 {
        1u64 << self.cluster_bits
    }
    pub fn refcount_bits(&self) -> u32 {
        1 << self.refcount_order
    }
    pub fn rb_entries(&self) -> u64 {
        self.cluster_size() * 8 / self.refcount_bits() as u64
    }
    pub fn l2_entries(&self) -> u64 {
        self.cluster_size() / 8
    }
    pub fn guest_clusters(&self) -> u64 {
        self.size.div_ceil(self.cluster_size())
    }
    pub fn l1_needed(&self) -> u64 {
        self.guest_clusters().div_ceil(self.l2_entries())
    }
}

/// Parse a header according to the specification. `strict_supported` additionally applies
/// the "supported feature set" of the properties (no encryption, no incompatible bits,
/// deflate only, refcount_order <= 6, cluster_bits 9..=21).
pub fn parse_header(b: &[u8]) -> Result<Hdr, String> {
    if b.len() < 72 {
        return Err("file shorter than a v2 header".into());
    }
    if be32(b, 0) != MAGIC {
        return Err("bad magic".into());
    }
    let version = be32(b, 4);
    if version != 2 && version != 3 {
        return Err(format!("unsupported version {version}"));
    }
    let mut h = Hdr {
        version,
        backing_file_offset: be64(b, 8),
        backing_file_size: be32(b, 16),
        cluster_bits: be32(b, 20),
        size: be64(b, 24),
        crypt_method: be32(b, 32),
        l1_size: be32(b, 36),
        l1_table_offset: be64(b, 40),
        refcount_table_offset: be64(b, 48),
        refcount_table_clusters: be32(b, 56),
        nb_snapshots: be32(b, 60),
        snapshots_offset: be64(b, 64),
        incompatible: 0,
        compatible: 0,
        autoclear: 0,
        refcount_order: 4,
        header_length: 72,
        compression_type: 0,
        backing: None,
        exts: Vec::new(),
    };
    if version == 3 {
        if b.len() < 104 {
            return Err("file shorter than a v3 header".into());
        }
        h.incompatible = be64(b, 72);
        h.compatible = be64(b, 80);
        h.autoclear = be64(b, 88);
        h.refcount_order = be32(b, 96);
        h.header_length = be32(b, 100);
        if h.header_length < 104 || h.header_length % 8 != 0 {
            return Err(format!("bad header_length {}", h.header_length));
        }
        if h.header_length > 104 {
            if b.len() < 105 {
                return Err("short".into());
            }
            h.compression_type = b[104];
        }
    }
    if !(9..=21).contains(&h.cluster_bits) {
        return Err(format!("cluster_bits {} out of range", h.cluster_bits));
    }
    if h.refcount_order > 6 {
        return Err(format!("refcount_order {} out of range", h.refcount_order));
    }
    let cs = h.cluster_size();
    if h.l1_table_offset % cs != 0 || h.refcount_table_offset % cs != 0 {
        return Err("table offset not cluster aligned".into());
    }
    // extensions
    let mut o = h.header_length as u64;
    loop {
        if o + 8 > cs || o + 8 > b.len() as u64 {
            return Err("extension area exceeds first cluster".into());
        }
        let t = be32(b, o as usize);
        let l = be32(b, o as usize + 4) as u64;
        o += 8;
        if t == EXT_END {
            break;
        }
        if o + l > cs || o + l > b.len() as u64 {
            return Err("extension data exceeds first cluster".into());
        }
        h.exts.push((t, b[o as usize..(o + l) as usize].to_vec()));
        o += l.div_ceil(8) * 8;
    }
    if h.backing_file_offset != 0 {
        let s = h.backing_file_offset;
        let l = h.backing_file_size as u64;
        if l > 1023 || s.saturating_add(l) > cs || s.saturating_add(l) > b.len() as u64 {
            return Err("backing file name out of range".into());
        }
        h.backing = Some(b[s as usize..(s + l) as usize].to_vec());
    }
    Ok(h)
}

/// Features outside the supported set of the properties.
pub fn unsupported_reason(h: &Hdr) -> Option<String> {
    if h.crypt_method != 0 {
        return Some(format!("crypt_method {}", h.crypt_method));
    }
    if h.incompatible != 0 {
        return Some(format!("incompatible features {:#x}", h.incompatible));
    }
    if h.compression_type != 0 {
        return Some("non-deflate compression".into());
    }
    if h.nb_snapshots != 0 {
        return Some("snapshots".into());
    }
    None
}

/// Features the properties require to be refused (C14)
pub fn refusal_required(h: &Hdr) -> Option<String> {
    if h.crypt_method != 0 {
        return Some(format!("crypt_method {}", h.crypt_method));
    }
    if h.incompatible != 0 {
        return Some(format!("incompatible features {:#x}", h.incompatible));
    }
    if h.compression_type != 0 {
        return Some("non-deflate compression".into());
    }
    None
}

/// Serialise a header (fields as given, extensions, backing name placed after them).
/// `backing_file_offset` / `backing_file_size` / `header_length` are recomputed.
pub fn ser_header(h: &Hdr) -> Vec<u8> {
    // version 3 headers may be 104 bytes (no compression type byte) or longer than 112 (unknown
    // fields, zero here); any other value of the field means "the usual 112"
    let hl: usize = if h.version == 2 {
        72
    } else if h.header_length >= 104 && h.header_length % 8 == 0 && h.header_length <= 512 {
        h.header_length as usize
    } else {
        112
    };
    let mut b = vec![0u8; hl];
    put32(&mut b, 0, MAGIC);
    put32(&mut b, 4, h.version);
    put32(&mut b, 20, h.cluster_bits);
    put64(&mut b, 24, h.size);
    put32(&mut b, 32, h.crypt_method);
    put32(&mut b, 36, h.l1_size);
    put64(&mut b, 40, h.l1_table_offset);
    put64(&mut b, 48, h.refcount_table_offset);
    put32(&mut b, 56, h.refcount_table_clusters);
    put32(&mut b, 60, h.nb_snapshots);
    put64(&mut b, 64, h.snapshots_offset);
    if h.version >= 3 {
        put64(&mut b, 72, h.incompatible);
        put64(&mut b, 80, h.compatible);
        put64(&mut b, 88, h.autoclear);
        put32(&mut b, 96, h.refcount_order);
        put32(&mut b, 100, hl as u32);
        if hl > 104 {
            b[104] = h.compression_type;
        }
    }
    for (t, d) in &h.exts {
        let mut e = vec![0u8; 8];
        put32(&mut e, 0, *t);
        put32(&mut e, 4, d.len() as u32);
        e.extend_from_slice(d);
        while e.len() % 8 != 0 {
            e.push(0);
        }
        b.extend_from_slice(&e);
    }
    b.extend_from_slice(&[0u8; 8]); // end marker
    if let Some(name) = &h.backing {
        let off = b.len() as u64;
        put64(&mut b, 8, off);
        put32(&mut b, 16, name.len() as u32);
        b.extend_from_slice(name);
    }
    b
}

// ---- refcounts -------------------------------------------------------------------------

/// Read refcount entry `idx` of a refcount block stored in `blk` (big-endian words,
/// sub-byte widths LSB first within each byte).
pub fn rc_get(blk: &[u8], order: u32, idx: u64) -> u64 {
    let bits = 1u64 << order;
    match order {
        0..=2 => {
            let per = 8 / bits;
            let byte = blk.get((idx / per) as usize).copied().unwrap_or(0);
            let sh = (idx % per) * bits;
            ((byte >> sh) as u64) & ((1 << bits) - 1)
        }
        _ => {
            let n = (bits / 8) as usize;
            let o = idx as usize * n;
            let mut v = 0u64;
            for i in 0..n {
                v = (v << 8) | blk.get(o + i).copied().unwrap_or(0) as u64;
            }
            v
        }
    }
}

pub fn rc_set(blk: &mut [u8], order: u32, idx: u64, val: u64) {
    let bits = 1u64 << order;
    match order {
        0..=2 => {
            let per = 8 / bits;
            let sh = (idx % per) * bits;
            let mask = (((1u64 << bits) - 1) << sh) as u8;
            let b = &mut blk[(idx / per) as usize];
            *b = (*b & !mask) | (((val << sh) as u8) & mask);
        }
        _ => {
            let n = (bits / 8) as usize;
            let o = idx as usize * n;
            for i in 0..n {
                blk[o + i] = (val >> (8 * (n - 1 - i))) as u8;
            }
        }
    }
}

pub fn rc_max(order: u32) -> u64 {
    if order >= 6 {
        u64::MAX
    } else {
        (1u64 << (1u64 << order)) - 1
    }
}

// ---- L1 / L2 entries -------------------------------------------------------------------

pub const COPIED: u64 = 1 << 63;
pub const COMPRESSED: u64 = 1 << 62;
pub const OFF_MASK: u64 = 0x00ff_ffff_ffff_fe00;
pub const L1_RESERVED: u64 = 0x7f00_0000_0000_01ff;
pub const L2_STD_RESERVED: u64 = 0x3f00_0000_0000_01fe;
pub const RT_RESERVED: u64 = 0x1ff;

#[derive(Clone, Copy, Debug, PartialEq, Eq, Serialize, Deserialize)]
pub enum L2Kind {
    /// entry 0 (or only COPIED with offset 0, which is invalid without external data file)
    Unalloc,
    /// standard cluster with data at `off`
    Data { off: u64, copied: bool },
    /// zero flag, optional preallocation
    Zero { off: u64, copied: bool },
    /// compressed: byte offset, additional sectors, byte length as defined by the spec
    Compressed { off: u64, nb_sectors: u64, len: u64 },
}

/// Decode an L2 entry per the specification. Err for entries the specification forbids.
pub fn l2_decode(e: u64, cluster_bits: u32, version: u32) -> Result<L2Kind, String> {
    if e & COMPRESSED != 0 {
        if e & COPIED != 0 {
            return Err("compressed entry with COPIED".into());
        }
        let x = 62 - (cluster_bits - 8);
        let desc = e & ((1u64 << 62) - 1);
        let off = desc & ((1u64 << x) - 1);
        let nb = desc >> x;
        let len = (nb + 1) * 512 - (off & 511);
        return Ok(L2Kind::Compressed {
            off,
            nb_sectors: nb,
            len,
        });
    }
    if e & L2_STD_RESERVED != 0 {
        return Err(format!("reserved bits set in L2 entry {e:#x}"));
    }
    let off = e & OFF_MASK;
    if off % (1u64 << cluster_bits) != 0 {
        return Err(format!("unaligned host offset in L2 entry {e:#x}"));
    }
    let copied = e & COPIED != 0;
    if e & 1 != 0 {
        if version < 3 {
            return Err("zero flag in a v2 image".into());
        }
        return Ok(L2Kind::Zero { off, copied });
    }
    if off == 0 {
        if copied {
            return Err("COPIED with offset 0 (no external data file)".into());
        }
        return Ok(L2Kind::Unalloc);
    }
    Ok(L2Kind::Data { off, copied })
}

pub fn l2_encode(k: &L2Kind, cluster_bits: u32) -> u64 {
    match *k {
        L2Kind::Unalloc => 0,
        L2Kind::Data { off, copied } => off | if copied { COPIED } else { 0 },
        L2Kind::Zero { off, copied } => off | 1 | if copied { COPIED } else { 0 },
        L2Kind::Compressed { off, nb_sectors, .. } => {
            let x = 62 - (cluster_bits - 8);
            COMPRESSED | (nb_sectors << x) | off
        }
    }
}

/// host clusters (indices) overlapped by a compressed cluster's sector span
pub fn compressed_host_clusters(off: u64, len: u64, cluster_bits: u32) -> std::ops::RangeInclusive<u64> {
    let first = off >> cluster_bits;
    let last = (off + len - 1) >> cluster_bits;
    first..=last
}
