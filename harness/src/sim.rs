//! Simulated host files implementing the public `Qcow2IoOps` trait.
//!
//! One `World` per case holds every file of a backing chain, the global request log,
//! the set of in-flight requests (scheduled mode) and the fault plan. Effects of a
//! request happen at *completion*; in immediate mode a request completes on first poll.
use qcow2_rs::error::Qcow2Result;
use qcow2_rs::ops::Qcow2IoOps;
use serde::{Deserialize, Serialize};
use std::cell::{Cell, RefCell};
use std::collections::BTreeMap;
use std::future::Future;
use std::pin::Pin;
use std::rc::Rc;
use std::task::{Context, Poll, Waker};

thread_local! {
    /// id of the task currently being polled by the executor (usize::MAX = none)
    pub static CUR_TASK: Cell<usize> = const { Cell::new(usize::MAX) };
}

#[derive(Clone, Copy, Debug, PartialEq, Eq, Hash, Serialize, Deserialize, PartialOrd, Ord)]
pub enum ReqKind {
    Read,
    Write,
    Punch,
    Fsync,
}

/// One backend request as seen by the simulated file
#[derive(Clone, Debug)]
pub struct ReqRec {
    pub seq: u64,
    pub file: usize,
    pub kind: ReqKind,
    pub off: u64,
    pub len: usize,
    pub flags: u32,
    pub buf_addr: usize,
    pub task: usize,
    /// event index of submission / completion (global, strictly increasing)
    pub submit_ev: u64,
    pub complete_ev: Option<u64>,
    /// false: the request reported Err to the library
    pub ok: bool,
    /// a modifying request whose effect was applied to `live`
    pub applied: bool,
    /// bytes returned (read) or range end actually affected (punch)
    pub result_len: usize,
    /// payload of a write
    pub data: Option<Rc<Vec<u8>>>,
    /// dropped by the library before completion
    pub cancelled: bool,
}

#[derive(Clone, Debug, Default, Serialize, Deserialize, PartialEq, Eq)]
pub struct FaultPlan {
    /// ordinals (count of requests submitted to the top file, starting at 0) that fail
    pub fail_ordinals: Vec<u64>,
    /// every request of this kind fails (on the top file)
    pub fail_kind: Option<ReqKind>,
    /// hole punching reports "unsupported" (must be absorbed by the zero-write fallback)
    pub punch_unsupported: bool,
    /// failed writes are applied to the file although Err is reported
    pub applied_but_failed: bool,
    /// faults stop once this many requests were submitted
    pub heal_after: Option<u64>,
    /// ordinals (count of requests submitted to any file other than the top file, i.e. to the
    /// images of the backing chain, starting at 0) that fail; not subject to `heal_after`
    #[serde(default)]
    pub back_fail_ordinals: Vec<u64>,
}

pub struct FileState {
    pub name: String,
    pub live: Vec<u8>,
    pub initial: Vec<u8>,
    pub submitted: u64,
}

struct InFlight {
    seq: u64,
    waker: Waker,
    rbuf: *mut u8,
}

#[derive(Default)]
pub struct WorldInner {
    pub files: Vec<FileState>,
    pub log: Vec<ReqRec>,
    inflight: Vec<InFlight>,
    done: BTreeMap<u64, Result<usize, ()>>,
    pub ev: u64,
    pub seq: u64,
    pub scheduled: bool,
    pub faults: FaultPlan,
    pub faults_on: bool,
    pub injected: u64,
    /// requests submitted to files other than the top file
    pub back_submitted: u64,
    /// keep payloads of writes in the log (needed for crash images)
    pub keep_data: bool,
    /// hard cap on the size a simulated file may reach
    pub max_file_len: usize,
    pub too_big: bool,
    /// requests that may still be submitted before a submission panics (u64::MAX = unlimited)
    pub req_budget: u64,
}

#[derive(Clone)]
pub struct World(pub Rc<RefCell<WorldInner>>);

impl Default for World {
    fn default() -> Self {
        Self::new()
    }
}

impl World {
    pub fn new() -> Self {
        World(Rc::new(RefCell::new(WorldInner {
            max_file_len: 1 << 30,
            req_budget: u64::MAX,
            ..Default::default()
        })))
    }

    pub fn add_file(&self, name: &str, bytes: Vec<u8>) -> usize {
        let mut w = self.0.borrow_mut();
        w.files.push(FileState {
            name: name.to_string(),
            initial: bytes.clone(),
            live: bytes,
            submitted: 0,
        });
        w.files.len() - 1
    }

    pub fn file_id(&self, name: &str) -> Option<usize> {
        self.0.borrow().files.iter().position(|f| f.name == name)
    }

    pub fn open(&self, id: usize) -> SimFile {
        SimFile {
            world: self.clone(),
            id,
        }
    }

    pub fn bytes(&self, id: usize) -> Vec<u8> {
        self.0.borrow().files[id].live.clone()
    }

    pub fn file_len(&self, id: usize) -> usize {
        self.0.borrow().files[id].live.len()
    }

    pub fn set_scheduled(&self, on: bool) {
        self.0.borrow_mut().scheduled = on;
    }

    pub fn now(&self) -> u64 {
        self.0.borrow().ev
    }

    pub fn tick(&self) -> u64 {
        let mut w = self.0.borrow_mut();
        w.ev += 1;
        w.ev
    }

    pub fn log_len(&self) -> usize {
        self.0.borrow().log.len()
    }

    pub fn inflight_seqs(&self) -> Vec<u64> {
        self.0.borrow().inflight.iter().map(|r| r.seq).collect()
    }

    pub fn inflight_count(&self) -> usize {
        self.0.borrow().inflight.len()
    }

    /// Complete the in-flight request with sequence number `seq`: apply its effect and wake
    /// the submitter.
    pub fn complete(&self, seq: u64) {
        let waker = {
            let mut w = self.0.borrow_mut();
            let pos = w
                .inflight
                .iter()
                .position(|r| r.seq == seq)
                .expect("complete: no such request");
            let inf = w.inflight.remove(pos);
            let res = w.apply(seq, inf.rbuf);
            w.done.insert(seq, res);
            inf.waker
        };
        waker.wake();
    }
}

impl WorldInner {
    fn rec_mut(&mut self, seq: u64) -> &mut ReqRec {
        // log is ordered by seq, seq == index
        &mut self.log[seq as usize]
    }

    fn fault_for(&self, file: usize, kind: ReqKind, ordinal: u64, back_ordinal: Option<u64>) -> bool {
        if !self.faults_on {
            return false;
        }
        if file != 0 {
            return back_ordinal.map(|b| self.faults.back_fail_ordinals.contains(&b)).unwrap_or(false);
        }
        if let Some(h) = self.faults.heal_after {
            if ordinal >= h {
                return false;
            }
        }
        if self.faults.fail_kind == Some(kind) {
            return true;
        }
        if kind == ReqKind::Punch && self.faults.punch_unsupported {
            return true;
        }
        self.faults.fail_ordinals.contains(&ordinal)
    }

    /// apply the effect of request `seq` at its completion
    fn apply(&mut self, seq: u64, rbuf: *mut u8) -> Result<usize, ()> {
        self.ev += 1;
        let ev = self.ev;
        let (file, kind, off, len, data, fail) = {
            let r = &self.log[seq as usize];
            (r.file, r.kind, r.off, r.len, r.data.clone(), !r.ok)
        };
        let max_len = self.max_file_len;
        let applied_but_failed = self.faults.applied_but_failed;
        let mut result_len = 0usize;
        let mut applied = false;
        let mut too_big = false;
        {
            let f = &mut self.files[file];
            match kind {
                ReqKind::Read => {
                    if !fail {
                        let flen = f.live.len() as u64;
                        let n = if off >= flen {
                            0
                        } else {
                            std::cmp::min(len as u64, flen - off) as usize
                        };
                        if n > 0 {
                            // SAFETY: the submitting future borrows the buffer mutably and is
                            // alive (it deregisters itself on drop)
                            unsafe {
                                std::ptr::copy_nonoverlapping(
                                    f.live.as_ptr().add(off as usize),
                                    rbuf,
                                    n,
                                );
                            }
                        }
                        result_len = n;
                    }
                }
                ReqKind::Write => {
                    if !fail || applied_but_failed {
                        let end = off as u128 + len as u128;
                        if end > max_len as u128 {
                            too_big = true;
                        } else {
                            let end = end as usize;
                            if f.live.len() < end {
                                f.live.resize(end, 0);
                            }
                            let d = data.as_ref().unwrap();
                            f.live[off as usize..end].copy_from_slice(d);
                            applied = true;
                            result_len = len;
                        }
                    }
                }
                ReqKind::Punch => {
                    if !fail {
                        let flen = f.live.len() as u64;
                        let end = std::cmp::min(flen as u128, off as u128 + len as u128) as u64;
                        if off < end {
                            f.live[off as usize..end as usize].fill(0);
                            result_len = (end - off) as usize;
                        }
                        applied = true;
                    }
                }
                ReqKind::Fsync => {}
            }
        }
        if too_big {
            self.too_big = true;
        }
        let keep = self.keep_data;
        let r = self.rec_mut(seq);
        r.complete_ev = Some(ev);
        r.applied = applied;
        r.result_len = result_len;
        if !keep {
            r.data = None;
        }
        if too_big {
            r.ok = false;
        }
        if r.ok {
            Ok(result_len)
        } else {
            Err(())
        }
    }
}

/// Handle to one simulated file; this is the `T` of `Qcow2Dev<T>`
pub struct SimFile {
    pub world: World,
    pub id: usize,
}

enum FutState {
    Init,
    InFlight(u64),
    Done,
}

pub struct ReqFut<'a> {
    world: &'a World,
    file: usize,
    kind: ReqKind,
    off: u64,
    len: usize,
    flags: u32,
    rbuf: *mut u8,
    wbuf: *const u8,
    state: FutState,
}

impl<'a> ReqFut<'a> {
    fn submit(&mut self) -> u64 {
        let mut w = self.world.0.borrow_mut();
        if w.req_budget == 0 {
            w.req_budget = u64::MAX;
            drop(w);
            panic!("sim: request budget exceeded");
        }
        if w.req_budget != u64::MAX {
            w.req_budget -= 1;
        }
        w.ev += 1;
        let seq = w.seq;
        w.seq += 1;
        let ordinal = w.files[self.file].submitted;
        w.files[self.file].submitted += 1;
        let back_ordinal = if self.file != 0 {
            w.back_submitted += 1;
            Some(w.back_submitted - 1)
        } else {
            None
        };
        let fail = w.fault_for(self.file, self.kind, ordinal, back_ordinal);
        if fail {
            w.injected += 1;
        }
        let data = if self.kind == ReqKind::Write {
            // SAFETY: wbuf/len come from a live `&[u8]` borrowed by this future
            let s = unsafe { std::slice::from_raw_parts(self.wbuf, self.len) };
            Some(Rc::new(s.to_vec()))
        } else {
            None
        };
        let ev = w.ev;
        let rec = ReqRec {
            seq,
            file: self.file,
            kind: self.kind,
            off: self.off,
            len: self.len,
            flags: self.flags,
            buf_addr: if self.kind == ReqKind::Read {
                self.rbuf as usize
            } else {
                self.wbuf as usize
            },
            task: CUR_TASK.with(|c| c.get()),
            submit_ev: ev,
            complete_ev: None,
            ok: !fail,
            applied: false,
            result_len: 0,
            data,
            cancelled: false,
        };
        debug_assert_eq!(w.log.len() as u64, seq);
        w.log.push(rec);
        seq
    }
}

impl<'a> Future for ReqFut<'a> {
    type Output = Qcow2Result<usize>;

    fn poll(self: Pin<&mut Self>, cx: &mut Context<'_>) -> Poll<Self::Output> {
        let this = unsafe { self.get_unchecked_mut() };
        match this.state {
            FutState::Init => {
                let seq = this.submit();
                let scheduled = this.world.0.borrow().scheduled;
                if scheduled {
                    this.world.0.borrow_mut().inflight.push(InFlight {
                        seq,
                        waker: cx.waker().clone(),
                        rbuf: this.rbuf,
                    });
                    this.state = FutState::InFlight(seq);
                    Poll::Pending
                } else {
                    let res = this.world.0.borrow_mut().apply(seq, this.rbuf);
                    this.state = FutState::Done;
                    Poll::Ready(match res {
                        Ok(n) => Ok(n),
                        Err(()) => Err("sim: request failed".into()),
                    })
                }
            }
            FutState::InFlight(seq) => {
                let mut w = this.world.0.borrow_mut();
                if let Some(res) = w.done.remove(&seq) {
                    drop(w);
                    this.state = FutState::Done;
                    Poll::Ready(match res {
                        Ok(n) => Ok(n),
                        Err(()) => Err("sim: request failed".into()),
                    })
                } else {
                    // refresh the waker (the future may have moved between combinators)
                    if let Some(inf) = w.inflight.iter_mut().find(|r| r.seq == seq) {
                        inf.waker = cx.waker().clone();
                    }
                    Poll::Pending
                }
            }
            FutState::Done => panic!("sim: request future polled after completion"),
        }
    }
}

impl<'a> Drop for ReqFut<'a> {
    fn drop(&mut self) {
        if let FutState::InFlight(seq) = self.state {
            let mut w = self.world.0.borrow_mut();
            if let Some(pos) = w.inflight.iter().position(|r| r.seq == seq) {
                w.inflight.remove(pos);
                w.log[seq as usize].cancelled = true;
            }
            w.done.remove(&seq);
        }
    }
}

impl SimFile {
    fn req<'a>(
        &'a self,
        kind: ReqKind,
        off: u64,
        len: usize,
        flags: u32,
        rbuf: *mut u8,
        wbuf: *const u8,
    ) -> ReqFut<'a> {
        ReqFut {
            world: &self.world,
            file: self.id,
            kind,
            off,
            len,
            flags,
            rbuf,
            wbuf,
            state: FutState::Init,
        }
    }
}

impl Qcow2IoOps for SimFile {
    async fn read_to(&self, offset: u64, buf: &mut [u8]) -> Qcow2Result<usize> {
        self.req(
            ReqKind::Read,
            offset,
            buf.len(),
            0,
            buf.as_mut_ptr(),
            std::ptr::null(),
        )
        .await
    }

    async fn write_from(&self, offset: u64, buf: &[u8]) -> Qcow2Result<()> {
        self.req(
            ReqKind::Write,
            offset,
            buf.len(),
            0,
            std::ptr::null_mut(),
            buf.as_ptr(),
        )
        .await
        .map(|_| ())
    }

    async fn fallocate(&self, offset: u64, len: usize, flags: u32) -> Qcow2Result<()> {
        self.req(
            ReqKind::Punch,
            offset,
            len,
            flags,
            std::ptr::null_mut(),
            std::ptr::null(),
        )
        .await
        .map(|_| ())
    }

    async fn fsync(&self, offset: u64, len: usize, flags: u32) -> Qcow2Result<()> {
        self.req(
            ReqKind::Fsync,
            offset,
            len,
            flags,
            std::ptr::null_mut(),
            std::ptr::null(),
        )
        .await
        .map(|_| ())
    }
}

/// 4096-aligned byte buffer owned by the harness (caller buffers of read_at/write_at)
pub struct ABuf {
    ptr: *mut u8,
    len: usize,
}

impl ABuf {
    pub fn new(len: usize, fill: u8) -> ABuf {
        let l = std::alloc::Layout::from_size_align(std::cmp::max(len, 1), 4096).unwrap();
        let ptr = unsafe { std::alloc::alloc(l) };
        assert!(!ptr.is_null());
        unsafe { std::ptr::write_bytes(ptr, fill, std::cmp::max(len, 1)) };
        ABuf { ptr, len }
    }
    pub fn from_slice(s: &[u8]) -> ABuf {
        let mut b = ABuf::new(s.len(), 0);
        b.as_mut().copy_from_slice(s);
        b
    }
}

impl AsRef<[u8]> for ABuf {
    fn as_ref(&self) -> &[u8] {
        unsafe { std::slice::from_raw_parts(self.ptr, self.len) }
    }
}
impl AsMut<[u8]> for ABuf {
    fn as_mut(&mut self) -> &mut [u8] {
        unsafe { std::slice::from_raw_parts_mut(self.ptr, self.len) }
    }
}
impl std::ops::Deref for ABuf {
    type Target = [u8];
    fn deref(&self) -> &[u8] {
        self.as_ref()
    }
}
impl std::ops::DerefMut for ABuf {
    fn deref_mut(&mut self) -> &mut [u8] {
        self.as_mut()
    }
}
impl Drop for ABuf {
    fn drop(&mut self) {
        let l = std::alloc::Layout::from_size_align(std::cmp::max(self.len, 1), 4096).unwrap();
        unsafe { std::alloc::dealloc(self.ptr, l) };
    }
}

// ---------------------------------------------------------------------------------------
// Crash images
// ---------------------------------------------------------------------------------------

/// Everything needed to derive the crash images of the top file (file 0) from the log.
pub struct CrashBase {
    /// image made of every request that is durable at the crash point
    pub durable: Vec<u8>,
    /// modifying requests that are not durable at the crash point, in submission order:
    /// (seq, offset, payload or None = zero range, effective length, completed?)
    pub volatile: Vec<VolReq>,
}

#[derive(Clone)]
pub struct VolReq {
    pub seq: u64,
    pub off: u64,
    pub len: usize,
    pub data: Option<Rc<Vec<u8>>>,
    pub completed: bool,
    /// position in effect order: completion event, in-flight requests last
    pub order: u64,
}

impl World {
    /// State at crash point `p` (an event index): requests durable by then and the
    /// un-synced rest. A request is durable iff some fsync that reported success had been
    /// submitted after the request completed and has itself completed at or before `p`.
    pub fn crash_base(&self, p: u64) -> CrashBase {
        let w = self.0.borrow();
        let mut watermark = 0u64; // requests completed before this event are durable
        for r in w.log.iter() {
            if r.file == 0 && r.kind == ReqKind::Fsync && r.ok && !r.cancelled {
                if let Some(c) = r.complete_ev {
                    if c <= p && r.submit_ev > watermark {
                        watermark = r.submit_ev;
                    }
                }
            }
        }
        let mut durable = w.files[0].initial.clone();
        let mut volatile = Vec::new();
        // durable ones applied in completion order
        let mut dur: Vec<&ReqRec> = Vec::new();
        for r in w.log.iter() {
            if r.file != 0 || r.cancelled && r.complete_ev.is_none() {
                continue;
            }
            if !matches!(r.kind, ReqKind::Write | ReqKind::Punch) {
                continue;
            }
            if r.submit_ev > p {
                continue;
            }
            match r.complete_ev {
                Some(c) if c <= p && c < watermark => {
                    if r.applied {
                        dur.push(r);
                    }
                }
                Some(c) if c <= p => {
                    // completed but not covered by an fsync
                    if r.applied {
                        volatile.push(VolReq {
                            seq: r.seq,
                            off: r.off,
                            len: if r.kind == ReqKind::Punch {
                                r.result_len
                            } else {
                                r.len
                            },
                            data: r.data.clone(),
                            completed: true,
                            order: c,
                        });
                    }
                }
                _ => {
                    // in flight at the crash: may be partially applied. A punch in flight
                    // affects at most the part inside the file at that time; we use the
                    // requested length clipped later against the image length.
                    if r.ok || w.faults.applied_but_failed {
                        volatile.push(VolReq {
                            seq: r.seq,
                            off: r.off,
                            len: r.len,
                            data: r.data.clone(),
                            completed: false,
                            order: (1u64 << 62) + r.seq,
                        });
                    }
                }
            }
        }
        dur.sort_by_key(|r| r.complete_ev.unwrap());
        volatile.sort_by_key(|v| v.order);
        for r in dur {
            apply_to(&mut durable, r.kind == ReqKind::Punch, r.off, r.len, r.data.as_deref());
        }
        CrashBase { durable, volatile }
    }
}

fn apply_to(img: &mut Vec<u8>, punch: bool, off: u64, len: usize, data: Option<&Vec<u8>>) {
    let off = off as usize;
    if punch {
        let end = std::cmp::min(img.len(), off.saturating_add(len));
        if off < end {
            img[off..end].fill(0);
        }
    } else {
        let end = off + len;
        if img.len() < end {
            img.resize(end, 0);
        }
        img[off..end].copy_from_slice(&data.unwrap()[..len]);
    }
}

impl CrashBase {
    /// Crash image in which exactly the volatile requests selected by `keep` persisted
    /// completely (applied in submission order) and the others were lost.
    pub fn image_subset(&self, keep: &dyn Fn(usize) -> bool) -> Vec<u8> {
        let mut img = self.durable.clone();
        for (i, v) in self.volatile.iter().enumerate() {
            if keep(i) {
                apply_to(&mut img, v.data.is_none(), v.off, v.len, v.data.as_deref());
            }
        }
        img
    }

    /// Crash image with an independent choice per block of size `bs`: `pick(block, n)`
    /// returns which of the `n` candidate versions (0 = durable content, k = the k-th
    /// volatile request covering that block) survives.
    pub fn image_torn(&self, bs: usize, pick: &mut dyn FnMut(u64, usize) -> usize) -> Vec<u8> {
        let mut img = self.durable.clone();
        // collect per block the covering volatile requests
        let mut cover: BTreeMap<u64, Vec<usize>> = BTreeMap::new();
        for (i, v) in self.volatile.iter().enumerate() {
            if v.len == 0 {
                continue;
            }
            let first = v.off / bs as u64;
            let last = (v.off + v.len as u64 - 1) / bs as u64;
            for b in first..=last {
                cover.entry(b).or_default().push(i);
            }
        }
        for (b, vs) in cover {
            let k = pick(b, vs.len() + 1);
            if k == 0 {
                continue;
            }
            let v = &self.volatile[vs[k - 1]];
            let bstart = b * bs as u64;
            let s = std::cmp::max(bstart, v.off);
            let e = std::cmp::min(bstart + bs as u64, v.off + v.len as u64);
            if v.data.is_none() {
                // zero range never extends the file
                let e = std::cmp::min(e as usize, img.len());
                if (s as usize) < e {
                    img[s as usize..e].fill(0);
                }
            } else {
                if img.len() < e as usize {
                    img.resize(e as usize, 0);
                }
                let d = v.data.as_ref().unwrap();
                img[s as usize..e as usize]
                    .copy_from_slice(&d[(s - v.off) as usize..(e - v.off) as usize]);
            }
        }
        img
    }
}
