//! Data patterns. Every 512-byte guest block written by the harness (or placed in a built
//! image) starts with a 16-byte tag (writer id, absolute guest block index) and never
//! contains the poison byte read buffers are pre-filled with.
use serde::{Deserialize, Serialize};

pub const POISON: u8 = 0xA5;
pub const BLK: usize = 512;

#[derive(Clone, Copy, Debug, PartialEq, Eq, Hash, Serialize, Deserialize)]
pub struct Pat {
    pub id: u32,
    /// sparse: only the tag is non-zero (stale data read as a refcount block under-counts);
    /// dense: every byte is in 0x10..0x7f (stale data read as an L1/L2 table is invalid)
    pub sparse: bool,
}

fn enc(v: u32, out: &mut [u8]) {
    for i in 0..8 {
        out[i] = 0x10 | ((v >> (28 - 4 * i)) & 0xf) as u8;
    }
}

fn dec(b: &[u8]) -> Option<u32> {
    let mut v = 0u32;
    for x in b.iter().take(8) {
        if x & 0xf0 != 0x10 {
            return None;
        }
        v = (v << 4) | (x & 0xf) as u32;
    }
    Some(v)
}

/// Fill one 512-byte block
pub fn fill_block(buf: &mut [u8], pat: Pat, gblk: u64) {
    debug_assert_eq!(buf.len(), BLK);
    enc(pat.id, &mut buf[0..8]);
    enc(gblk as u32, &mut buf[8..16]);
    if pat.sparse {
        buf[16..].fill(0);
    } else {
        let base = (pat.id as usize).wrapping_mul(31).wrapping_add((gblk as usize).wrapping_mul(7));
        for (j, x) in buf[16..].iter_mut().enumerate() {
            *x = 0x20 + ((base + j) % 0x60) as u8;
        }
    }
}

/// Fill `buf` (a multiple of 512 bytes) as the content of guest offset `goff`
pub fn fill(buf: &mut [u8], pat: Pat, goff: u64) {
    debug_assert_eq!(goff % BLK as u64, 0);
    for (i, c) in buf.chunks_mut(BLK).enumerate() {
        fill_block(c, pat, goff / BLK as u64 + i as u64);
    }
}

/// Decode the tag of a block: Some((id, gblk)) if it is a pattern block
pub fn tag_of(block: &[u8]) -> Option<(u32, u32)> {
    Some((dec(&block[0..8])?, dec(&block[8..16])?))
}

/// Human readable description of a block's content (for violation messages)
pub fn describe(block: &[u8]) -> String {
    if block.iter().all(|&b| b == 0) {
        return "zeros".into();
    }
    if block.iter().all(|&b| b == POISON) {
        return "untouched(poison)".into();
    }
    match tag_of(block) {
        Some((id, g)) => format!("pattern(id={id:#x},gblk={g})"),
        None => {
            let n = std::cmp::min(16, block.len());
            format!("other({:02x?}..)", &block[..n])
        }
    }
}
