//! Fault-injection engine (C17): runs a sequential history against a backend that fails
//! generated / enumerated requests, then heals, retries flush_meta and checks the result.
use crate::case::*;
use crate::engine::*;
use crate::model::{MKind, Model};
use crate::pat::{BLK, POISON};
use crate::sim::{ABuf, FaultPlan, ReqKind, World};
use crate::spec::checker::{self, Mode};
use serde::{Deserialize, Serialize};
use std::collections::BTreeMap;

#[derive(Clone, Debug, PartialEq, Eq, Serialize, Deserialize)]
pub enum FaultMode {
    /// run the history once per request ordinal 0..n (n = requests of the fault-free run,
    /// capped), failing exactly that request
    EnumerateSingles { cap: usize, applied_but_failed: bool },
    Plan(FaultPlan),
}

#[derive(Clone, Debug, PartialEq, Eq, Serialize, Deserialize)]
pub struct FaultCase {
    pub seq: SeqCase,
    pub mode: FaultMode,
}

#[derive(Clone, Debug, Default, Serialize, Deserialize)]
pub struct FaultStats {
    pub runs: u64,
    pub injected: u64,
    pub failed_meta_or_fsync: u64,
    pub failed_data: u64,
    pub failed_read: u64,
    pub failed_punch: u64,
    /// failed requests (reads) on images of the backing chain
    #[serde(default)]
    pub failed_backing: u64,
    pub calls_err: u64,
    pub calls_absorbed: u64,
    pub open_failed: u64,
    pub flush_retries: u64,
    pub leaks_tolerated: u64,
    pub reopen_compares: u64,
    pub uncertain_blocks: u64,
}

pub struct FaultRun {
    pub violation: Option<Violation>,
    pub inconclusive: Option<String>,
    pub stats: FaultStats,
}

struct Expect {
    model: Model,
    /// alternative values a block may legally hold besides model.disk
    alts: BTreeMap<u64, Vec<Vec<u8>>>,
    kind_uncertain: Vec<bool>,
    /// host clusters found in the device's new-cluster set (allocated, mapped, not zeroed yet)
    /// right after a write_at call that returned Err
    left_new: std::collections::BTreeSet<u64>,
    /// guest content of the backing chain below the top image (for the independent reader)
    below: Option<Vec<u8>>,
    /// a cache slice was evicted while a multi-cluster call (concurrent per-cluster parts) ran:
    /// case predicate of the eviction known finding (cumulative, damage can surface later)
    evicted_in_multi: bool,
}

/// Case predicate of a known finding: the violating guest cluster is mapped to a host cluster
/// that a failed write_at left allocated, mapped and never zeroed.
const TAG_UNZEROED: &str = "unzeroed_new_cluster_left_by_failed_write";

impl Expect {
    fn block_ok(&self, gb: u64, got: &[u8]) -> bool {
        let s = gb as usize * BLK;
        if got == &self.model.disk[s..s + BLK] {
            return true;
        }
        self.alts.get(&gb).map(|v| v.iter().any(|a| a.as_slice() == got)).unwrap_or(false)
    }
    fn check(&self, off: u64, got: &[u8], what: &str) -> Option<Violation> {
        for (i, g) in got.chunks(BLK).enumerate() {
            let gb = off / BLK as u64 + i as u64;
            if !self.block_ok(gb, g) {
                let s = gb as usize * BLK;
                let mut v = Violation::new(
                    Rule::ReadData,
                    format!(
                        "{what}: guest block {gb} holds {}, expected {}{}",
                        crate::pat::describe(g),
                        crate::pat::describe(&self.model.disk[s..s + BLK]),
                        if self.alts.contains_key(&gb) { " (or the value of a failed write)" } else { "" }
                    ),
                );
                v.cluster = Some(s / self.model.cs);
                return Some(v);
            }
        }
        None
    }
}

pub fn run_fault_case(case: &FaultCase) -> FaultRun {
    let mut out = FaultRun {
        violation: None,
        inconclusive: None,
        stats: FaultStats::default(),
    };
    match &case.mode {
        FaultMode::Plan(p) => {
            run_one(&case.seq, Some(p.clone()), &mut out);
        }
        FaultMode::EnumerateSingles { cap, applied_but_failed } => {
            // fault-free run to learn the number of requests
            let (n, n_back) = match run_one(&case.seq, None, &mut out) {
                Some(n) => n,
                None => return out,
            };
            if out.violation.is_some() || out.inconclusive.is_some() {
                return out;
            }
            let n = std::cmp::min(n as usize, *cap);
            for k in 0..n {
                let plan = FaultPlan {
                    fail_ordinals: vec![k as u64],
                    heal_after: Some(k as u64 + 1),
                    applied_but_failed: *applied_but_failed,
                    ..FaultPlan::default()
                };
                run_one(&case.seq, Some(plan.clone()), &mut out);
                if let Some(v) = &mut out.violation {
                    v.msg = format!("[fault plan: fail request #{k} of the top file{}] {}", if *applied_but_failed { ", applied although reported failed" } else { "" }, v.msg);
                    v.tags.push(format!("plan:{}", serde_json::to_string(&plan).unwrap()));
                    return out;
                }
                if out.inconclusive.is_some() {
                    return out;
                }
            }
            // the same for every request sent to an image of the backing chain (reads only: C10
            // owns "no modifying request there"); written twice because applied_but_failed has no
            // meaning for reads
            if !*applied_but_failed {
                let nb = std::cmp::min(n_back as usize, *cap);
                for k in 0..nb {
                    let plan = FaultPlan {
                        back_fail_ordinals: vec![k as u64],
                        ..FaultPlan::default()
                    };
                    run_one(&case.seq, Some(plan.clone()), &mut out);
                    if let Some(v) = &mut out.violation {
                        v.msg = format!("[fault plan: fail request #{k} sent to the backing chain] {}", v.msg);
                        v.tags.push(format!("plan:{}", serde_json::to_string(&plan).unwrap()));
                        v.tags.push("backing_fault".into());
                        return out;
                    }
                    if out.inconclusive.is_some() {
                        return out;
                    }
                }
            }
        }
    }
    out
}

/// One execution; returns the number of requests submitted to the top file and to the other files
fn run_one(case: &SeqCase, plan: Option<FaultPlan>, out: &mut FaultRun) -> Option<(u64, u64)> {
    out.stats.runs += 1;
    let world = World::new();
    let layers = match build_layers(&case.layers) {
        Ok(l) => l,
        Err(v) => {
            if v.rule == Rule::Setup {
                out.inconclusive = Some(v.msg);
            } else {
                out.violation = Some(v);
            }
            return None;
        }
    };
    for (i, b) in layers.bytes.iter().enumerate() {
        world.add_file(&layer_name(i), b.clone());
    }
    let with_faults = plan.is_some();
    if let Some(p) = plan {
        let mut w = world.0.borrow_mut();
        w.faults = p;
        w.faults_on = true;
    }
    let mut ex = Expect {
        model: Model::new(&case.layers, &layers.truths),
        alts: BTreeMap::new(),
        kind_uncertain: vec![],
        left_new: Default::default(),
        evicted_in_multi: false,
        below: if case.layers.len() > 1 { Some(crate::model::chain_content(&case.layers, &layers.truths, 1)) } else { None },
    };
    ex.kind_uncertain = vec![false; ex.model.clusters()];
    let r = run_one_inner(case, &world, &mut ex, &mut out.stats, with_faults);
    if std::env::var("VERIF_TRACE").is_ok() {
        let w = world.0.borrow();
        let cs = ex.model.cs as u64;
        for r in w.log.iter() {
            eprintln!(
                "  seq {:3} f{} {:?} off {:6} (cluster {:3}+{:4}) len {:6} submit {} complete {:?} ok {}",
                r.seq, r.file, r.kind, r.off, r.off / cs, r.off % cs, r.len, r.submit_ev, r.complete_ev, r.ok
            );
        }
        eprintln!("  result {:?}", r.as_ref().err().map(|v| &v.msg));
    }
    // classify injected faults
    {
        let w = world.0.borrow();
        let cs = ex.model.cs;
        for rec in w.log.iter().filter(|r| r.file != 0 && !r.ok) {
            let _ = rec;
            out.stats.injected += 1;
            out.stats.failed_backing += 1;
        }
        for rec in w.log.iter().filter(|r| r.file == 0 && !r.ok) {
            out.stats.injected += 1;
            match rec.kind {
                ReqKind::Fsync => out.stats.failed_meta_or_fsync += 1,
                ReqKind::Read => out.stats.failed_read += 1,
                ReqKind::Punch => out.stats.failed_punch += 1,
                ReqKind::Write => {
                    if rec.len < cs || rec.off == 0 {
                        out.stats.failed_meta_or_fsync += 1
                    } else {
                        out.stats.failed_data += 1
                    }
                }
            }
        }
    }
    if let Err(mut v) = r {
        if ex.evicted_in_multi {
            v.tags.push("hist:eviction_during_concurrency".into());
        }
        // case predicate for a known finding: a hole punch and the zero-write fallback that
        // follows it both failed (a freshly allocated cluster could not be zeroed)
        {
            let w = world.0.borrow();
            let top: Vec<&crate::sim::ReqRec> = w.log.iter().filter(|r| r.file == 0).collect();
            let both = top.windows(2).any(|p| p[0].kind == ReqKind::Punch && !p[0].ok && p[1].kind == ReqKind::Write && !p[1].ok && p[1].off == p[0].off);
            if both {
                v.tags.push("punch_and_fallback_failed".into());
            }
        }
        if world.0.borrow().too_big {
            out.inconclusive = Some("simulated file exceeded the harness size cap".into());
        } else {
            out.violation = Some(v);
        }
    }
    let n = world.0.borrow().files[0].submitted;
    let nb = world.0.borrow().back_submitted;
    Some((n, nb))
}

fn injected(world: &World) -> u64 {
    world.0.borrow().injected
}

fn run_one_inner(case: &SeqCase, world: &World, ex: &mut Expect, st: &mut FaultStats, with_faults: bool) -> Result<(), Violation> {
    let mut sched = Sched::new(case.sched.clone());
    let params = case.params.clone();
    let inj0 = injected(world);
    let dev = match open_chain(world, 0, &params, false) {
        Ok(Ok(d)) => d,
        Ok(Err(e)) => {
            if injected(world) > inj0 {
                st.open_failed += 1;
                return Ok(());
            }
            return Err(Violation::new(Rule::ApiErr, format!("open failed without any injected fault: {e}")).tag("open"));
        }
        Err(p) => return Err(Violation::new(Rule::Panic, format!("open panicked: {p}")).tag("open").tag(format!("panic:{}", panic_site(&p)))),
    };
    let cs = ex.model.cs;
    let vsize = ex.model.vsize;
    let bs = params.bs();

    fn drv<R>(d: Driven<R>, what: &str) -> Result<R, Violation> {
        match d {
            Driven::Done(r) => Ok(r),
            Driven::Panic(m) => Err(Violation::new(Rule::Panic, format!("{what} panicked: {m}")).tag(format!("panic:{}", panic_site(&m))).tag("faulted")),
            Driven::Deadlock => Err(Violation::new(Rule::Deadlock, format!("{what} blocked forever")).tag("faulted")),
            Driven::Budget => Err(Violation::new(Rule::Budget, format!("{what} exceeded the budget")).tag("faulted")),
        }
    }

    for (i, op) in case.ops.iter().enumerate() {
        let before = injected(world);
        // an error is legitimate only if the backend failed a request during this very call
        let check_err = |world: &World, what: String, e: String, st: &mut FaultStats| -> Result<(), Violation> {
            if injected(world) > before {
                st.calls_err += 1;
                Ok(())
            } else {
                Err(Violation::new(
                    Rule::ApiErr,
                    format!("{what} failed although the backend completed all of its requests (device not usable after an earlier fault): {e}"),
                )
                .at(i)
                .tag("unusable_after_fault"))
            }
        };
        match op {
            Op::Write { off, len, pat } => {
                let mut data = ABuf::new(*len, 0);
                crate::pat::fill(&mut data, *pat, *off);
                let first = *off as usize / cs;
                let last = (*off as usize + *len - 1) / cs;
                let ev0 = qcow2_rs::cache::verif_evictions();
                let r0 = drive(world, &mut sched, dev.write_at(&data, *off));
                if last > first && qcow2_rs::cache::verif_evictions() > ev0 {
                    ex.evicted_in_multi = true;
                }
                let r = drv(r0, "write_at").map_err(|v| v.at(i))?;
                match r {
                    Ok(()) => {
                        if injected(world) > before {
                            st.calls_absorbed += 1;
                        }
                        ex.model.write(*off, &data);
                        for k in 0..(*len / BLK) {
                            ex.alts.remove(&(*off / BLK as u64 + k as u64));
                        }
                    }
                    Err(e) => {
                        check_err(world, format!("write_at(off={off}, len={len})"), format!("{e:?}"), st)?;
                        if let Some(nc) = dev.verif_new_clusters() {
                            ex.left_new.extend(nc);
                        }
                        for k in 0..(*len / BLK) {
                            let gb = *off / BLK as u64 + k as u64;
                            ex.alts.entry(gb).or_default().push(data[k * BLK..(k + 1) * BLK].to_vec());
                            st.uncertain_blocks += 1;
                        }
                        for g in first..=last {
                            ex.kind_uncertain[g] = true;
                        }
                    }
                }
            }
            Op::Read { off, len } => {
                let mut buf = ABuf::new(*len, POISON);
                let r = drv(drive(world, &mut sched, dev.read_at(&mut buf, *off)), "read_at").map_err(|v| v.at(i))?;
                match r {
                    Ok(n) if n == *len => {
                        if let Some(mut v) = ex.check(*off, &buf, &format!("read_at(off={off}, len={len})")) {
                            if let Some(g) = v.cluster {
                                let mut s0 = Sched::new(None);
                                if let Driven::Done(Ok(m)) = drive(world, &mut s0, dev.get_mapping((g * cs) as u64)) {
                                    if m.cluster_offset.map(|o| ex.left_new.contains(&(o / cs as u64))) == Some(true) {
                                        v = v.tag(TAG_UNZEROED);
                                    }
                                }
                            }
                            return Err(v.at(i).tag("live"));
                        }
                    }
                    Ok(n) => {
                        // a short count is acceptable only if a request of this call failed
                        check_err(world, format!("read_at(off={off}, len={len}) returned {n}"), "short".into(), st)?;
                    }
                    Err(e) => check_err(world, format!("read_at(off={off}, len={len})"), format!("{e:?}"), st)?,
                }
            }
            Op::Discard { off, len } => {
                let r = drv(drive(world, &mut sched, dev.discard(*off, *len)), "discard").map_err(|v| v.at(i))?;
                let range = ex.model.discard_range(*off, *len);
                let zero = vec![0u8; BLK];
                let mut maybe_zero = |ex: &mut Expect, g: usize| {
                    let s = g * cs;
                    let e = std::cmp::min(s + cs, vsize as usize);
                    for gb in (s / BLK)..(e / BLK) {
                        ex.alts.entry(gb as u64).or_default().push(zero.clone());
                    }
                };
                match r {
                    Ok(()) => {
                        if injected(world) > before {
                            st.calls_absorbed += 1;
                        }
                        for g in range.clone() {
                            if ex.kind_uncertain[g] {
                                maybe_zero(ex, g);
                            }
                        }
                        // certain kinds follow the model rule
                        let uncertain: Vec<bool> = ex.kind_uncertain.clone();
                        let saved: Vec<(usize, MKind)> = range.clone().filter(|g| uncertain[*g]).map(|g| (g, ex.model.kind[g])).collect();
                        for (g, _) in &saved {
                            ex.model.kind[*g] = MKind::Unalloc; // skip in model.discard
                        }
                        ex.model.discard(*off, *len);
                        for (g, k) in saved {
                            ex.model.kind[g] = k;
                        }
                    }
                    Err(e) => {
                        check_err(world, format!("discard(off={off}, len={len})"), format!("{e:?}"), st)?;
                        for g in range {
                            if matches!(ex.model.kind[g], MKind::Data | MKind::ZeroPrealloc) || ex.kind_uncertain[g] {
                                maybe_zero(ex, g);
                                ex.kind_uncertain[g] = true;
                            }
                        }
                    }
                }
            }
            Op::Flush | Op::Reopen { .. } => {
                let r = drv(drive(world, &mut sched, dev.flush_meta()), "flush_meta").map_err(|v| v.at(i))?;
                if let Err(e) = r {
                    check_err(world, "flush_meta".into(), format!("{e:?}"), st)?;
                }
            }
            Op::Fsync => {
                let r = drv(drive(world, &mut sched, dev.fsync_range(0, vsize as usize)), "fsync_range").map_err(|v| v.at(i))?;
                if let Err(e) = r {
                    check_err(world, "fsync_range".into(), format!("{e:?}"), st)?;
                }
            }
            Op::Shrink => {
                let r = drv(drive(world, &mut sched, dev.shrink_caches()), "shrink_caches").map_err(|v| v.at(i))?;
                if let Err(e) = r {
                    check_err(world, "shrink_caches".into(), format!("{e:?}"), st)?;
                }
            }
        }
    }

    // heal and retry the flush
    world.0.borrow_mut().faults_on = false;
    let mut ok = false;
    let mut last_err = String::new();
    for attempt in 0..8 {
        let r = drv(drive(world, &mut sched, dev.flush_meta()), "flush_meta (after healing)")?;
        match r {
            Ok(()) => {
                ok = true;
                st.flush_retries += attempt;
                break;
            }
            Err(e) => last_err = format!("{e:?}"),
        }
    }
    if !ok {
        return Err(Violation::new(Rule::ApiErr, format!("flush_meta still fails after the backend healed (8 attempts): {last_err}")).tag("flush_after_heal"));
    }
    if !with_faults {
        drop(dev);
        return Ok(());
    }
    // live content
    let mut s2 = Sched::new(None);
    let got = sweep(world, &mut s2, &dev, vsize, bs, cs, 1).map_err(|v| v.tag("after_heal"))?;
    let readable = got.len() - got.len() % bs;
    if let Some(mut v) = ex.check(0, &got[..readable], "live device after healing + flush") {
        // diagnostic: where the concerned clusters are mapped
        let mut maps = Vec::new();
        for g in 0..ex.model.clusters() {
            if let Driven::Done(Ok(m)) = drive(world, &mut s2, dev.get_mapping((g * cs) as u64)) {
                if m.source != qcow2_rs::meta::MappingSource::Unallocated {
                    maps.push(format!("g{g}->{:?}@{:?}", m.source, m.cluster_offset));
                }
            }
        }
        v.msg += &format!(" | mappings: {}", maps.join(" "));
        if let Some(g) = v.cluster {
            if let Driven::Done(Ok(m)) = drive(world, &mut s2, dev.get_mapping((g * cs) as u64)) {
                if m.cluster_offset.map(|o| ex.left_new.contains(&(o / cs as u64))) == Some(true) {
                    v = v.tag(TAG_UNZEROED);
                }
            }
        }
        return Err(v.tag("after_heal").tag("live"));
    }
    // file state
    let bytes = world.bytes(0);
    let rep = checker::check(&bytes, Mode::CrashSafe);
    if !rep.leaked.is_empty() {
        st.leaks_tolerated += 1;
    }
    if !rep.ok(Mode::CrashSafe) {
        let rule = if !rep.corrupt.is_empty() { Rule::CheckCorrupt } else { Rule::CheckUnder };
        return Err(Violation::new(rule, format!("after healing + flush_meta Ok the file is damaged: {}", rep.summary(Mode::CrashSafe))).tag("after_heal"));
    }
    // reopen from copied bytes
    let w2 = World::new();
    let n = world.0.borrow().files.len();
    for id in 0..n {
        w2.add_file(&layer_name(id), world.bytes(id));
    }
    let d2 = match open_chain(&w2, 0, &params, true) {
        Ok(Ok(d)) => d,
        Ok(Err(e)) => return Err(Violation::new(Rule::ReopenOpen, format!("reopen after healing failed: {e}")).tag("after_heal")),
        Err(p) => return Err(Violation::new(Rule::Panic, format!("reopen after healing panicked: {p}")).tag("after_heal").tag(format!("panic:{}", panic_site(&p)))),
    };
    let mut s3 = Sched::new(None);
    let got = sweep(&w2, &mut s3, &d2, vsize, bs, cs, 2).map_err(|v| v.tag("after_heal").tag("reopened"))?;
    let readable = got.len() - got.len() % bs;
    if let Some(mut v) = ex.check(0, &got[..readable], "reopened device after healing + flush") {
        v.rule = Rule::Reopen;
        if let Some(g) = v.cluster {
            if let Driven::Done(Ok(m)) = drive(&w2, &mut s3, d2.get_mapping((g * cs) as u64)) {
                if m.cluster_offset.map(|o| ex.left_new.contains(&(o / cs as u64))) == Some(true) {
                    v = v.tag(TAG_UNZEROED);
                }
            }
        }
        return Err(v.tag("after_heal").tag("reopened"));
    }
    st.reopen_compares += 1;
    // the file alone, read by the independent reader (honours the header's l1_size etc.): a
    // qcow2 image is an interchange format, "readable after reopen" is not limited to this library
    {
        match crate::spec::reader::read_guest(&bytes, ex.below.as_deref()) {
            Ok(content) => {
                let readable = std::cmp::min(content.len(), vsize as usize) / BLK * BLK;
                if let Some(mut v) = ex.check(0, &content[..readable], "independent reader on the file after healing + flush") {
                    v.rule = Rule::Reopen;
                    return Err(v.tag("after_heal").tag("independent_reader"));
                }
            }
            Err(e) => return Err(Violation::new(Rule::ReopenOpen, format!("independent reader rejects the file after healing + flush: {e}")).tag("after_heal").tag("independent_reader")),
        }
    }
    drop(dev);
    Ok(())
}
