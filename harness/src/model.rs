//! Flat reference disk.
use crate::case::LayerSpec;
use crate::pat::BLK;
use crate::spec::builder::{CKind, Truth};

#[derive(Clone, Copy, Debug, PartialEq, Eq)]
pub enum MKind {
    /// no own allocation: zeros or backing data
    Unalloc,
    Data,
    ZeroFlag,
    ZeroPrealloc,
    Compressed,
    /// had an own allocation that was discarded: must read zeros
    Discarded,
}

#[derive(Clone)]
pub struct Model {
    pub cs: usize,
    pub vsize: u64,
    pub disk: Vec<u8>,
    pub kind: Vec<MKind>,
    pub has_backing: bool,
    /// a write covering only part of the cluster hit it while its content came from the
    /// backing chain or from a compressed cluster
    pub cow_done: Vec<bool>,
    /// cluster was written / discarded at least once
    pub touched: Vec<bool>,
    /// initial content was non-zero somewhere in this cluster
    pub init_nonzero: Vec<bool>,
}

/// Guest content of layer `i` of a chain seen through its backing layers
pub fn chain_content(layers: &[LayerSpec], truths: &[Option<Truth>], i: usize) -> Vec<u8> {
    let vsize = layers[i].vsize() as usize;
    let below: Option<Vec<u8>> = if i + 1 < layers.len() {
        Some(chain_content(layers, truths, i + 1))
    } else {
        None
    };
    let mut out = vec![0u8; vsize];
    if let Some(b) = &below {
        let n = std::cmp::min(b.len(), vsize);
        out[..n].copy_from_slice(&b[..n]);
    }
    if let Some(t) = &truths[i] {
        let cs = t.cluster_size;
        for (g, k) in t.kinds.iter().enumerate() {
            if *k != CKind::Unalloc {
                let s = g * cs;
                let e = std::cmp::min(s + cs, vsize);
                out[s..e].copy_from_slice(&t.content[s..e]);
            }
        }
    }
    out
}

impl Model {
    pub fn new(layers: &[LayerSpec], truths: &[Option<Truth>]) -> Model {
        let cs = 1usize << layers[0].cluster_bits();
        let vsize = layers[0].vsize();
        let disk = chain_content(layers, truths, 0);
        let n = (vsize as usize).div_ceil(cs);
        let kind: Vec<MKind> = (0..n)
            .map(|g| match &truths[0] {
                None => MKind::Unalloc,
                Some(t) => match t.kinds[g] {
                    CKind::Unalloc => MKind::Unalloc,
                    CKind::Data(..) => MKind::Data,
                    CKind::ZeroFlag => MKind::ZeroFlag,
                    CKind::ZeroPrealloc => MKind::ZeroPrealloc,
                    CKind::Compressed(_) => MKind::Compressed,
                },
            })
            .collect();
        let init_nonzero = (0..n)
            .map(|g| {
                let s = g * cs;
                let e = std::cmp::min(s + cs, vsize as usize);
                disk[s..e].iter().any(|&b| b != 0)
            })
            .collect();
        Model {
            cs,
            vsize,
            disk,
            kind,
            has_backing: layers.len() > 1,
            cow_done: vec![false; n],
            touched: vec![false; n],
            init_nonzero,
        }
    }

    pub fn clusters(&self) -> usize {
        self.kind.len()
    }

    /// apply a completed write
    pub fn write(&mut self, off: u64, data: &[u8]) {
        let s = off as usize;
        self.disk[s..s + data.len()].copy_from_slice(data);
        if data.is_empty() {
            return;
        }
        let first = s / self.cs;
        let last = (s + data.len() - 1) / self.cs;
        for g in first..=last {
            let cstart = g * self.cs;
            let cend = std::cmp::min(cstart + self.cs, self.vsize as usize);
            let full = s <= cstart && s + data.len() >= cend;
            let sourced = self.kind[g] == MKind::Compressed || (self.kind[g] == MKind::Unalloc && self.has_backing);
            if !full && sourced {
                self.cow_done[g] = true;
            }
            self.kind[g] = MKind::Data;
            self.touched[g] = true;
        }
    }

    /// Whole clusters inside [off, off+len) clipped to the virtual size
    pub fn discard_range(&self, off: u64, len: u64) -> std::ops::Range<usize> {
        let end = std::cmp::min(off.saturating_add(len), self.vsize);
        if len == 0 || off >= end {
            return 0..0;
        }
        let cs = self.cs as u64;
        let first = off.div_ceil(cs);
        // a partial last cluster (virtual size not a cluster multiple) is only "whole" if the
        // range covers a full cluster of guest address space, which it cannot: round down
        let last = end / cs;
        if first >= last {
            0..0
        } else {
            first as usize..last as usize
        }
    }

    /// apply the C11 rule; returns the clusters that had an own uncompressed allocation
    pub fn discard(&mut self, off: u64, len: u64) -> Vec<usize> {
        let mut freed = Vec::new();
        for g in self.discard_range(off, len) {
            match self.kind[g] {
                MKind::Data | MKind::ZeroPrealloc => {
                    let s = g * self.cs;
                    let e = std::cmp::min(s + self.cs, self.vsize as usize);
                    self.disk[s..e].fill(0);
                    self.kind[g] = MKind::Discarded;
                    self.touched[g] = true;
                    freed.push(g);
                }
                _ => {}
            }
        }
        freed
    }

    /// first mismatching 512-byte block between `got` and the model at `off`
    pub fn first_mismatch(&self, off: u64, got: &[u8]) -> Option<(u64, String, String)> {
        let exp = &self.disk[off as usize..off as usize + got.len()];
        if exp == got {
            return None;
        }
        for (i, (e, g)) in exp.chunks(BLK).zip(got.chunks(BLK)).enumerate() {
            if e != g {
                return Some((
                    off + (i * BLK) as u64,
                    crate::pat::describe(e),
                    crate::pat::describe(g),
                ));
            }
        }
        None
    }
}
