use qv::runner::{self, Tier};
use std::path::Path;

fn usage() -> ! {
    eprintln!("usage: qv run <ID> <quick|thorough> | qv replay <path> | qv list");
    std::process::exit(2)
}

#[global_allocator]
static GLOBAL: qv::props::c14::alloc_count::Counting = qv::props::c14::alloc_count::Counting;

fn main() {
    qv::exec::install_panic_hook();
    let args: Vec<String> = std::env::args().collect();
    let props = qv::props::all();
    let seed: u64 = std::env::var("VERIF_SEED").ok().and_then(|s| s.parse().ok()).unwrap_or(1);
    match args.get(1).map(|s| s.as_str()) {
        Some("run") => {
            let id = args.get(2).unwrap_or_else(|| usage());
            let tier = match args.get(3).map(|s| s.as_str()).or(std::env::var("VERIF_TIER").ok().as_deref()) {
                Some("thorough") => Tier::Thorough,
                _ => Tier::Quick,
            };
            for p in &props {
                if p.id() == id {
                    std::process::exit(runner::run_prop(p.as_ref(), tier, seed));
                }
            }
            eprintln!("unknown property {id}");
            std::process::exit(2);
        }
        Some("replay") => {
            let path = args.get(2).unwrap_or_else(|| usage());
            std::process::exit(runner::replay_file(&props, Path::new(path)));
        }
        Some("triage") => {
            let id = args.get(2).unwrap_or_else(|| usage());
            let n: u32 = args.get(3).and_then(|s| s.parse().ok()).unwrap_or(2000);
            for p in &props {
                if p.id() == id {
                    runner::triage(p.as_ref(), seed, n);
                }
            }
        }
        Some("refind") => {
            // qv refind <finding-id> [n] [want]
            let fid = args.get(2).unwrap_or_else(|| usage());
            let n: u32 = args.get(3).and_then(|s| s.parse().ok()).unwrap_or(20000);
            let want: usize = args.get(4).and_then(|s| s.parse().ok()).unwrap_or(3);
            let fs = qv::runner::load_findings();
            let f = fs.iter().find(|f| &f.id == fid && f.status == "known").unwrap_or_else(|| {
                eprintln!("no known finding {fid}");
                std::process::exit(2)
            });
            let prop = qv::props::all().into_iter().find(|p| p.id() == f.property).unwrap();
            let k = qv::runner::refind(prop.as_ref(), f, seed, n, want);
            println!("{k} reproducers saved");
        }
        Some("explain") => {
            let path = args.get(2).unwrap_or_else(|| usage());
            let v: serde_json::Value = serde_json::from_str(&std::fs::read_to_string(path).unwrap()).unwrap();
            let case = v["replay"]["case"].clone();
            if let Ok(c) = serde_json::from_value::<qv::crash::ConcCrashCase>(case.clone()) {
                println!("{}", qv::crash::explain_conc(&c, v["property"] == "C05"));
            } else if let Ok(c) = serde_json::from_value::<qv::fault::FaultCase>(case.clone()) {
                // fault plan: explain the history run under the plan (faults stay on; no healing)
                let mut seq = c.seq.clone();
                if let qv::fault::FaultMode::Plan(p) = &c.mode {
                    seq.faults = Some(p.clone());
                }
                println!("{}", qv::crash::explain(&qv::crash::CrashCase { seq, crash: vec![] }));
            } else if let Ok(c) = serde_json::from_value::<qv::crash::CrashCase>(case.clone()) {
                println!("{}", qv::crash::explain(&c));
            } else if let Ok(c) = serde_json::from_value::<qv::case::SeqCase>(case) {
                println!("{}", qv::crash::explain(&qv::crash::CrashCase { seq: c, crash: vec![] }));
            }
        }
        Some("crashdump") => {
            let path = args.get(2).unwrap_or_else(|| usage());
            let ev: u64 = args.get(3).and_then(|s| s.parse().ok()).unwrap_or(0);
            let v: serde_json::Value = serde_json::from_str(&std::fs::read_to_string(path).unwrap()).unwrap();
            let c: qv::crash::CrashCase = serde_json::from_value(v["replay"]["case"].clone()).unwrap();
            println!("{}", qv::crash::crashdump(&c, ev));
        }
        Some("gen-corpus") => {
            // qv gen-corpus <dir>: seed corpora for the fuzz targets
            use proptest::strategy::{Strategy, ValueTree};
            let dir = std::path::PathBuf::from(args.get(2).unwrap_or_else(|| usage()));
            for sub in ["fz_header", "fz_image", "fz_history"] {
                let _ = std::fs::create_dir_all(dir.join(sub));
            }
            for (i, b) in qv::props::c14::corpus_header_samples().into_iter().enumerate() {
                let _ = std::fs::write(dir.join("fz_header").join(format!("seed{i}")), b);
            }
            let mut runner = proptest::test_runner::TestRunner::deterministic();
            let strat = qv::gen::raw_strategy(16, 30, 60, 24);
            for i in 0..48 {
                let raw = strat.new_tree(&mut runner).unwrap().current();
                let b = raw.to_bytes();
                let _ = std::fs::write(dir.join("fz_image").join(format!("seed{i}")), &b);
                let _ = std::fs::write(dir.join("fz_history").join(format!("seed{i}")), &b);
            }
            println!("corpus written to {}", dir.display());
        }
        Some("worker") => {
            qv::props::c14::worker_main();
        }
        Some("list") => {
            for p in &props {
                println!("{}", p.id());
            }
        }
        _ => usage(),
    }
}
