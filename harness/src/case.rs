//! Case types shared by generators, engines and replay files.
use crate::pat::Pat;
use crate::sim::FaultPlan;
use crate::spec::builder::ImageSpec;
use serde::{Deserialize, Serialize};

#[derive(Clone, Debug, PartialEq, Eq, Serialize, Deserialize)]
pub struct DevParams {
    pub bs_bits: u8,
    /// (slice bits, cache bytes); None = library defaults
    pub l2: Option<(u8, usize)>,
    pub rb: Option<(u8, usize)>,
}

impl DevParams {
    pub fn to_lib(&self, ro: bool) -> qcow2_rs::dev::Qcow2DevParams {
        qcow2_rs::dev::Qcow2DevParams::new(self.bs_bits, self.rb, self.l2, ro, false)
    }
    pub fn bs(&self) -> usize {
        1 << self.bs_bits
    }
}

#[derive(Clone, Debug, PartialEq, Eq, Serialize, Deserialize)]
pub enum LayerSpec {
    /// produced by the library's own formatter
    Formatted {
        cluster_bits: u8,
        refcount_order: u8,
        vsize: u64,
        /// block size passed to the formatter
        fmt_bs_bits: u8,
    },
    /// produced by the independent builder
    Built(ImageSpec),
}

impl LayerSpec {
    pub fn cluster_bits(&self) -> u8 {
        match self {
            LayerSpec::Formatted { cluster_bits, .. } => *cluster_bits,
            LayerSpec::Built(s) => s.cluster_bits,
        }
    }
    pub fn vsize(&self) -> u64 {
        match self {
            LayerSpec::Formatted { vsize, .. } => *vsize,
            LayerSpec::Built(s) => s.vsize,
        }
    }
    pub fn refcount_order(&self) -> u8 {
        match self {
            LayerSpec::Formatted { refcount_order, .. } => *refcount_order,
            LayerSpec::Built(s) => {
                if s.version == 2 {
                    4
                } else {
                    s.refcount_order
                }
            }
        }
    }
}

#[derive(Clone, Debug, PartialEq, Eq, Serialize, Deserialize)]
pub enum Op {
    Write { off: u64, len: usize, pat: Pat },
    Read { off: u64, len: usize },
    Discard { off: u64, len: u64 },
    Flush,
    Fsync,
    Shrink,
    /// flush_meta, drop the device, open a fresh one on the same file with new params
    Reopen { params: DevParams },
}

impl Op {
    pub fn kind(&self) -> &'static str {
        match self {
            Op::Write { .. } => "write",
            Op::Read { .. } => "read",
            Op::Discard { .. } => "discard",
            Op::Flush => "flush",
            Op::Fsync => "fsync",
            Op::Shrink => "shrink",
            Op::Reopen { .. } => "reopen",
        }
    }
    pub fn modifies(&self) -> bool {
        matches!(self, Op::Write { .. } | Op::Discard { .. })
    }
}

/// A sequential-history case
#[derive(Clone, Debug, PartialEq, Eq, Serialize, Deserialize)]
pub struct SeqCase {
    /// layers[0] is the top image, layers[i+1] is the backing image of layers[i]
    pub layers: Vec<LayerSpec>,
    pub params: DevParams,
    /// open the top device read-only
    pub read_only: bool,
    pub ops: Vec<Op>,
    /// Some: run every call under the executor; the vector decides the completion order of
    /// the requests a call has in flight. None: requests complete on first poll.
    pub sched: Option<Vec<u16>>,
    #[serde(default)]
    pub faults: Option<FaultPlan>,
    /// additional parameter sets a flushed image is reopened with (C02)
    #[serde(default)]
    pub reopen_params: Vec<DevParams>,
    /// known findings whose triggering shape the generator removed from this case
    #[serde(default)]
    pub excluded: Vec<String>,
}

pub fn layer_name(i: usize) -> String {
    format!("layer{i}.qcow2")
}
