//! Concurrent engine: batches of tasks run under the deterministic executor; per-block
//! linearizability oracle (Wing-Gong search over unique write values).
use crate::case::*;
use crate::engine::*;
use crate::exec::{self, Stop};
use crate::gen::{self, weighted1, Profile, RawCase};
use crate::model::{MKind, Model};
use crate::pat::{Pat, BLK, POISON};
use crate::sim::{ABuf, World};
use crate::spec::checker::{self, Mode};
use serde::{Deserialize, Serialize};
use std::cell::RefCell;
use std::collections::{BTreeMap, HashMap};

#[derive(Clone, Debug, PartialEq, Eq, Serialize, Deserialize)]
pub struct ConcCase {
    pub layers: Vec<LayerSpec>,
    pub params: DevParams,
    /// batches[b][t] = calls task t of batch b issues one after the other
    pub batches: Vec<Vec<Vec<Op>>>,
    pub sched: Vec<u16>,
    /// known findings whose triggering shape was removed from this case by the generator
    #[serde(default)]
    pub excluded: Vec<String>,
}

#[derive(Clone, Debug)]
pub struct CallRec {
    pub task: usize,
    pub op: Op,
    pub invoke: u64,
    pub response: u64,
    pub ok: bool,
    pub err: String,
    /// data returned by a read
    pub data: Option<Vec<u8>>,
}

#[derive(Clone, Debug, Default, Serialize, Deserialize)]
pub struct ConcStats {
    pub batches_done: usize,
    pub calls: usize,
    pub overlapping_pairs: usize,
    pub overlap_same_cluster: usize,
    pub overlap_same_block: usize,
    pub discard_vs_write: usize,
    pub flush_concurrent_with_write: usize,
    pub branch_points: u64,
    pub nondefault: u64,
    pub blocks_checked: usize,
    pub max_ops_per_block: usize,
    pub need_flush_false_samples: usize,
    pub need_flush_true_samples: usize,
    pub reopen_compares: usize,
    pub dirtying_overlapping_flush: usize,
    pub steps: u64,
    pub cache_small: bool,
    pub batches_with_eviction: usize,
}

#[derive(Clone, Debug)]
pub struct ConcCfg {
    /// check per-block linearizability of every batch
    pub linearizability: bool,
    /// after the last batch: flush + reopen from copied bytes must equal the final sweep
    pub final_reopen: bool,
    /// at every quiescent point: need_flush_meta()==false => file == memory
    pub need_flush_check: bool,
    /// run the ownership monitor at quiescent points
    pub ownership: bool,
    pub step_budget_base: u64,
    /// keep request payloads so that crash images can be derived from the log (crash.rs)
    pub keep_data: bool,
    /// at every quiescent point run flush_meta + fsync_range sequentially and record a sync point
    pub sync_after_batch: bool,
}

impl Default for ConcCfg {
    fn default() -> Self {
        ConcCfg {
            linearizability: true,
            final_reopen: true,
            need_flush_check: false,
            ownership: false,
            step_budget_base: 200_000,
            keep_data: false,
            sync_after_batch: false,
        }
    }
}

pub struct ConcRun {
    pub violation: Option<Violation>,
    pub inconclusive: Option<String>,
    pub stats: ConcStats,
    /// the world after the run (request log incl. payloads when cfg.keep_data)
    pub world: World,
    /// the model as adopted at the last quiescent point
    pub model: Option<Model>,
    pub trace: ConcTrace,
}

/// What the crash engine needs from a concurrent run
#[derive(Clone, Debug, Default)]
pub struct ConcTrace {
    /// (event, guest content) after flush_meta + fsync_range both returned Ok at a quiescent point
    pub sync_points: Vec<(u64, Vec<u8>)>,
    /// every modifying call with the event at which its batch started (a lower bound of its invocation)
    pub calls: Vec<(u64, Op)>,
    /// (first event, last event, batch index)
    pub batch_events: Vec<(u64, u64, usize)>,
}

fn vid(b: &[u8]) -> u64 {
    let mut h = 0xcbf2_9ce4_8422_2325u64;
    for x in b {
        h ^= *x as u64;
        h = h.wrapping_mul(0x100_0000_01b3);
    }
    h
}

#[derive(Clone, Copy, Debug)]
enum BOp {
    Write(u64),
    /// discard: certainly zeroes / may zero or leave unchanged
    Discard(bool),
    Read(u64),
}

#[derive(Clone, Copy, Debug)]
struct BEv {
    inv: u64,
    resp: u64,
    op: BOp,
    call: usize,
}

/// Wing-Gong search: is there an order consistent with real time in which every read returns
/// the latest preceding write/discard value? `init` is the value before the batch.
fn linearizable(evs: &[BEv], init: u64, zero: u64) -> bool {
    let n = evs.len();
    if n == 0 {
        return true;
    }
    if n > 20 {
        // should not happen with the generator bounds; treat as "not checkable"
        return true;
    }
    let full: u32 = (1u32 << n) - 1;
    let mut seen: HashMap<(u32, u64), ()> = HashMap::new();
    let mut stack = vec![(0u32, init)];
    while let Some((mask, val)) = stack.pop() {
        if mask == full {
            return true;
        }
        if seen.insert((mask, val), ()).is_some() {
            continue;
        }
        // earliest response among pending ops bounds which ops may go next
        let min_resp = (0..n).filter(|i| mask & (1 << i) == 0).map(|i| evs[i].resp).min().unwrap();
        for i in 0..n {
            if mask & (1 << i) != 0 {
                continue;
            }
            if evs[i].inv > min_resp {
                continue; // some pending op finished before this one started
            }
            let m2 = mask | (1 << i);
            match evs[i].op {
                BOp::Write(v) => stack.push((m2, v)),
                BOp::Discard(certain) => {
                    stack.push((m2, zero));
                    if !certain {
                        stack.push((m2, val));
                    }
                }
                BOp::Read(v) => {
                    if v == val {
                        stack.push((m2, val));
                    }
                }
            }
        }
    }
    false
}

pub fn run_conc(case: &ConcCase, cfg: &ConcCfg) -> ConcRun {
    let world = World::new();
    world.0.borrow_mut().keep_data = cfg.keep_data;
    let mut run = ConcRun {
        violation: None,
        inconclusive: None,
        stats: ConcStats::default(),
        world: world.clone(),
        model: None,
        trace: ConcTrace::default(),
    };
    let layers = match build_layers(&case.layers) {
        Ok(l) => l,
        Err(v) => {
            if v.rule == Rule::Setup {
                run.inconclusive = Some(v.msg);
            } else {
                run.violation = Some(v);
            }
            return run;
        }
    };
    for (i, b) in layers.bytes.iter().enumerate() {
        world.add_file(&layer_name(i), b.clone());
    }
    let mut model = Model::new(&case.layers, &layers.truths);
    let mut trace = ConcTrace::default();
    if let Err(v) = run_conc_inner(case, cfg, &world, &mut model, &mut run.stats, &mut trace) {
        run.violation = Some(v);
    }
    run.trace = trace;
    run.model = Some(model);
    if world.0.borrow().too_big && run.violation.is_some() {
        run.inconclusive = Some("simulated file exceeded the harness size cap".into());
        run.violation = None;
    }
    run
}

/// error message without numbers
fn err_site(e: &str) -> String {
    let d = e.split("description: \"").nth(1).unwrap_or(e);
    d.chars().filter(|c| !c.is_ascii_digit()).take(40).collect()
}

/// Tags describing the shape of a batch (used by known-finding signatures): which call kinds it
/// contains and whether the batch could run calls of several tasks concurrently.
fn batch_tags(_hist: &[CallRec], batch: &[Vec<Op>], cache_small: bool, evicted: bool, hist_flags: (bool, bool)) -> Vec<String> {
    let mut t = Vec::new();
    if hist_flags.0 {
        // this or an earlier batch ran a discard concurrently with other calls
        t.push("hist:concurrent_discard".to_string());
    }
    if hist_flags.1 {
        // in this or an earlier batch a cache slice was evicted while several tasks were running
        t.push("hist:eviction_during_concurrency".to_string());
    }
    let multi = batch.len() > 1;
    let has = |f: &dyn Fn(&Op) -> bool| batch.iter().flatten().any(|o| f(o));
    if multi && has(&|o| matches!(o, Op::Discard { .. })) {
        t.push("batch:concurrent_discard".to_string());
    }
    if multi && has(&|o| matches!(o, Op::Flush)) {
        t.push("batch:concurrent_flush".to_string());
    }
    if multi && has(&|o| matches!(o, Op::Shrink)) {
        t.push("batch:concurrent_shrink".to_string());
    }
    if multi && has(&|o| matches!(o, Op::Write { .. })) {
        t.push("batch:concurrent_write".to_string());
    }
    // cache_evictable: the caches cannot hold every slice the case may touch, so slices are
    // evicted while tasks run
    t.push(if cache_small { "cache_evictable" } else { "cache_holds_all" }.to_string());
    if multi && evicted {
        // a cache slice was evicted while the tasks of this batch were running
        t.push("batch:eviction_during_concurrency".to_string());
    }
    t
}

fn op_range(op: &Op) -> Option<(u64, u64)> {
    match op {
        Op::Write { off, len, .. } => Some((*off, *len as u64)),
        Op::Read { off, len } => Some((*off, *len as u64)),
        Op::Discard { off, len } => Some((*off, *len)),
        _ => None,
    }
}

fn run_conc_inner(case: &ConcCase, cfg: &ConcCfg, world: &World, model: &mut Model, stats: &mut ConcStats, trace: &mut ConcTrace) -> Result<(), Violation> {
    let dev = match open_chain(world, 0, &case.params, false) {
        Ok(Ok(d)) => d,
        Ok(Err(e)) => return Err(Violation::new(Rule::ApiErr, format!("initial open failed: {e}")).tag("open")),
        Err(p) => return Err(Violation::new(Rule::Panic, format!("initial open panicked: {p}")).tag("open").tag(format!("panic:{}", panic_site(&p)))),
    };
    let cs = model.cs;
    let vsize = model.vsize;
    let bs = case.params.bs();
    let zero = vid(&[0u8; BLK]);
    let mut cursor = 0usize;
    let mut seq_sched = Sched::new(None);
    let mut ambiguous = vec![false; model.clusters()];
    {
        let (l2_have, l2_need, rb_have, rb_need) = cache_capacity(case);
        stats.cache_small = l2_have < l2_need || rb_have < rb_need;
    }

    // cumulative shape flags (a race in an earlier batch can leave damage that shows later)
    let mut seen_conc_discard = false;
    let mut seen_conc_eviction = false;
    for (bi, batch) in case.batches.iter().enumerate() {
        if batch.len() > 1 && batch.iter().flatten().any(|o| matches!(o, Op::Discard { .. })) {
            seen_conc_discard = true;
        }
        let batch_start = world.now();
        for op in batch.iter().flatten() {
            if op.modifies() {
                trace.calls.push((batch_start, op.clone()));
            }
        }
        trace.batch_events.push((batch_start, u64::MAX, bi));
        let hist: RefCell<Vec<CallRec>> = RefCell::new(Vec::new());
        let mut tasks: Vec<Option<exec::Task>> = Vec::new();
        let ncalls: usize = batch.iter().map(|t| t.len()).sum();
        for (ti, ops) in batch.iter().enumerate() {
            let dev = &dev;
            let hist = &hist;
            let world2 = world.clone();
            let t: exec::Task = Box::pin(async move {
                for op in ops.iter() {
                    let invoke = world2.now();
                    let mut data = None;
                    let res: Result<(), String> = match op {
                        Op::Write { off, len, pat } => {
                            let mut buf = ABuf::new(*len, 0);
                            crate::pat::fill(&mut buf, *pat, *off);
                            dev.write_at(&buf, *off).await.map_err(|e| format!("{e:?}"))
                        }
                        Op::Read { off, len } => {
                            let mut buf = ABuf::new(*len, POISON);
                            match dev.read_at(&mut buf, *off).await {
                                Ok(n) if n == *len => {
                                    data = Some(buf.to_vec());
                                    Ok(())
                                }
                                Ok(n) => Err(format!("short read: {n} of {len}")),
                                Err(e) => Err(format!("{e:?}")),
                            }
                        }
                        Op::Discard { off, len } => dev.discard(*off, *len).await.map_err(|e| format!("{e:?}")),
                        Op::Flush => dev.flush_meta().await.map_err(|e| format!("{e:?}")),
                        Op::Shrink => dev.shrink_caches().await.map_err(|e| format!("{e:?}")),
                        Op::Fsync => dev.fsync_range(0, 0).await.map_err(|e| format!("{e:?}")),
                        Op::Reopen { .. } => Ok(()),
                    };
                    let response = world2.tick();
                    hist.borrow_mut().push(CallRec {
                        task: ti,
                        op: op.clone(),
                        invoke,
                        response,
                        ok: res.is_ok(),
                        err: res.err().unwrap_or_default(),
                        data,
                    });
                }
            });
            tasks.push(Some(t));
        }
        let budget = cfg.step_budget_base + 40_000 * ncalls as u64;
        let rest: &[u16] = if cursor < case.sched.len() { &case.sched[cursor..] } else { &[] };
        qcow2_rs::cache::verif_set_tick_budget(TICK_BUDGET);
        world.0.borrow_mut().req_budget = REQ_BUDGET;
        let ev0 = qcow2_rs::cache::verif_evictions();
        let st = exec::run_tasks(world, tasks, rest, budget);
        let evicted = qcow2_rs::cache::verif_evictions() > ev0;
        if evicted {
            stats.batches_with_eviction += 1;
            if batch.len() > 1 {
                seen_conc_eviction = true;
            }
        }
        let hist_flags = (seen_conc_discard, seen_conc_eviction);
        qcow2_rs::cache::verif_set_tick_budget(u64::MAX);
        world.0.borrow_mut().req_budget = u64::MAX;
        cursor += st.choices_used;
        stats.branch_points += st.branch_points;
        stats.nondefault += st.nondefault;
        stats.steps += st.steps;
        let hist = hist.into_inner();
        let describe_batch = || -> String {
            let done: Vec<String> = hist.iter().map(|c| format!("t{}:{}", c.task, c.op.kind())).collect();
            format!("batch {bi}: {} tasks, {} calls issued, completed [{}]", batch.len(), ncalls, done.join(","))
        };
        match st.stop {
            Stop::AllDone => {}
            Stop::Deadlock(blocked) => {
                let kinds: Vec<String> = blocked
                    .iter()
                    .map(|t| {
                        let done = hist.iter().filter(|c| c.task == *t).count();
                        batch[*t].get(done).map(|o| o.kind().to_string()).unwrap_or_default()
                    })
                    .collect();
                let mut sorted = kinds.clone();
                sorted.sort();
                return Err(Violation::new(
                    Rule::Deadlock,
                    format!("deadlock: tasks {:?} blocked in {:?} with no ready task and no request in flight; {}", blocked, kinds, describe_batch()),
                )
                .at(bi)
                .tag(format!("blocked:{}", sorted.join("+")))
                .tags(batch_tags(&hist, batch, stats.cache_small, evicted, hist_flags)));
            }
            Stop::Budget => {
                return Err(Violation::new(Rule::Budget, format!("step budget {budget} exceeded; {}", describe_batch())).at(bi).tags(batch_tags(&hist, batch, stats.cache_small, evicted, hist_flags)));
            }
            Stop::Panic(t, m) => {
                if m.contains("verif: tick budget exceeded") || m.contains("sim: request budget exceeded") {
                    return Err(Violation::new(Rule::Budget, format!("task {t}: {m}; {}", describe_batch())).at(bi));
                }
                let done = hist.iter().filter(|c| c.task == t).count();
                let kind = batch[t].get(done).map(|o| o.kind()).unwrap_or("?");
                return Err(Violation::new(Rule::Panic, format!("task {t} ({kind}) panicked: {m}; {}", describe_batch()))
                    .at(bi)
                    .tag(kind)
                    .tag(format!("panic:{}", panic_site(&m)))
                    .tags(batch_tags(&hist, batch, stats.cache_small, evicted, hist_flags)));
            }
        }
        stats.calls += hist.len();
        let btags = batch_tags(&hist, batch, stats.cache_small, evicted, hist_flags);
        let tagged = |mut v: Violation| -> Violation {
            v.tags.extend(btags.iter().cloned());
            v
        };
        // spurious failures
        for c in &hist {
            if !c.ok {
                let rule = if matches!(c.op, Op::Discard { .. }) { Rule::DiscardErr } else { Rule::ApiErr };
                return Err(tagged(
                    Violation::new(rule, format!("{} by task {} failed under concurrency: {}; {}", c.op.kind(), c.task, c.err, describe_batch()))
                        .at(bi)
                        .tag(c.op.kind())
                        .tag("concurrent")
                        .tag(format!("err:{}", err_site(&c.err))),
                ));
            }
        }
        // overlap statistics
        for i in 0..hist.len() {
            for j in i + 1..hist.len() {
                let (a, b) = (&hist[i], &hist[j]);
                if a.task == b.task || a.response < b.invoke || b.response < a.invoke {
                    continue;
                }
                stats.overlapping_pairs += 1;
                let fa = matches!(a.op, Op::Flush | Op::Shrink);
                let fb = matches!(b.op, Op::Flush | Op::Shrink);
                if (fa && b.op.modifies()) || (fb && a.op.modifies()) {
                    stats.flush_concurrent_with_write += 1;
                    stats.dirtying_overlapping_flush += 1;
                }
                if let (Some((o1, l1)), Some((o2, l2))) = (op_range(&a.op), op_range(&b.op)) {
                    let c1 = (o1 / cs as u64, (o1 + l1.max(1) - 1) / cs as u64);
                    let c2 = (o2 / cs as u64, (o2.saturating_add(l2.max(1)) - 1) / cs as u64);
                    if c1.0 <= c2.1 && c2.0 <= c1.1 {
                        stats.overlap_same_cluster += 1;
                        if o1 < o2.saturating_add(l2) && o2 < o1 + l1 {
                            stats.overlap_same_block += 1;
                        }
                        let dw = (matches!(a.op, Op::Discard { .. }) && matches!(b.op, Op::Write { .. }))
                            || (matches!(b.op, Op::Discard { .. }) && matches!(a.op, Op::Write { .. }));
                        if dw {
                            stats.discard_vs_write += 1;
                        }
                    }
                }
            }
        }

        // quiescent point: sweep
        let got = sweep(world, &mut seq_sched, &dev, vsize, bs, cs, bi).map_err(|v| tagged(v.at(bi).tag("quiescent")))?;
        let readable = got.len() - got.len() % bs;
        let end_ev = world.tick();

        if cfg.linearizability {
            // clusters written in this batch
            let mut written: Vec<bool> = vec![false; model.clusters()];
            for c in &hist {
                if let Op::Write { off, len, .. } = &c.op {
                    for g in (*off as usize / cs)..=((*off as usize + *len - 1) / cs) {
                        written[g] = true;
                    }
                }
            }
            let mut per_block: BTreeMap<u64, Vec<BEv>> = BTreeMap::new();
            for (ci, c) in hist.iter().enumerate() {
                match &c.op {
                    Op::Write { off, len, pat } => {
                        let mut blk = [0u8; BLK];
                        for k in 0..(*len / BLK) {
                            let gb = *off / BLK as u64 + k as u64;
                            crate::pat::fill_block(&mut blk, *pat, gb);
                            per_block.entry(gb).or_default().push(BEv {
                                inv: c.invoke,
                                resp: c.response,
                                op: BOp::Write(vid(&blk)),
                                call: ci,
                            });
                        }
                    }
                    Op::Read { off, len } => {
                        let d = c.data.as_ref().unwrap();
                        for k in 0..(*len / BLK) {
                            let gb = *off / BLK as u64 + k as u64;
                            per_block.entry(gb).or_default().push(BEv {
                                inv: c.invoke,
                                resp: c.response,
                                op: BOp::Read(vid(&d[k * BLK..(k + 1) * BLK])),
                                call: ci,
                            });
                        }
                    }
                    Op::Discard { off, len } => {
                        for g in model.discard_range(*off, *len) {
                            let certain = matches!(model.kind[g], MKind::Data | MKind::ZeroPrealloc) && !ambiguous[g];
                            let maybe = written[g] || ambiguous[g];
                            if !certain && !maybe {
                                continue; // certainly a no-op
                            }
                            let s = g * cs;
                            let e = std::cmp::min(s + cs, vsize as usize);
                            for gb in (s / BLK)..(e / BLK) {
                                per_block.entry(gb as u64).or_default().push(BEv {
                                    inv: c.invoke,
                                    resp: c.response,
                                    op: BOp::Discard(certain),
                                    call: ci,
                                });
                            }
                        }
                    }
                    _ => {}
                }
            }
            // every block: ops of the batch + the final sweep as a read after everything
            let nblocks = readable / BLK;
            for gb in 0..nblocks as u64 {
                let s = gb as usize * BLK;
                let init = vid(&model.disk[s..s + BLK]);
                let fin = vid(&got[s..s + BLK]);
                let mut evs = per_block.remove(&gb).unwrap_or_default();
                if evs.is_empty() {
                    if init != fin {
                        let g = s / cs;
                        let mut v = Violation::new(
                            Rule::Frame,
                            format!(
                                "batch {bi}: guest block {gb} (cluster {g}) was not targeted by any call but changed from {} to {}; {}",
                                crate::pat::describe(&model.disk[s..s + BLK]),
                                crate::pat::describe(&got[s..s + BLK]),
                                describe_batch()
                            ),
                        )
                        .at(bi);
                        v.cluster = Some(g);
                        return Err(tagged(v.tag("concurrent")));
                    }
                    continue;
                }
                stats.blocks_checked += 1;
                stats.max_ops_per_block = std::cmp::max(stats.max_ops_per_block, evs.len());
                evs.push(BEv {
                    inv: end_ev,
                    resp: end_ev + 1,
                    op: BOp::Read(fin),
                    call: usize::MAX,
                });
                if !linearizable(&evs, init, zero) {
                    let g = s / cs;
                    let calls: Vec<String> = evs
                        .iter()
                        .map(|e| {
                            let what = if e.call == usize::MAX {
                                "final-sweep".to_string()
                            } else {
                                format!("t{}:{}", hist[e.call].task, hist[e.call].op.kind())
                            };
                            format!("{}[{}..{}]{:?}", what, e.inv, e.resp, match e.op {
                                BOp::Write(_) => "W",
                                BOp::Discard(true) => "D!",
                                BOp::Discard(false) => "D?",
                                BOp::Read(v) if v == zero => "R=zero",
                                BOp::Read(v) if v == init => "R=init",
                                BOp::Read(v) if v == fin => "R=final",
                                BOp::Read(_) => "R=other",
                            })
                        })
                        .collect();
                    let mut v = Violation::new(
                        Rule::ReadData,
                        format!(
                            "batch {bi}: no linearization for guest block {gb} (cluster {g}): initial {}, final {}, events {}",
                            crate::pat::describe(&model.disk[s..s + BLK]),
                            crate::pat::describe(&got[s..s + BLK]),
                            calls.join(" ")
                        ),
                    )
                    .at(bi);
                    v.cluster = Some(g);
                    return Err(tagged(v.tag("linearizability")));
                }
            }
        }
        // adopt the (legal) observed state as the model for the next batch
        let mut wr = vec![false; model.clusters()];
        let mut dc = vec![false; model.clusters()];
        for c in &hist {
            match &c.op {
                Op::Write { off, len, .. } => {
                    for g in (*off as usize / cs)..=((*off as usize + *len - 1) / cs) {
                        wr[g] = true;
                    }
                }
                Op::Discard { off, len } => {
                    for g in model.discard_range(*off, *len) {
                        dc[g] = true;
                    }
                }
                _ => {}
            }
        }
        for g in 0..model.clusters() {
            if wr[g] && dc[g] {
                ambiguous[g] = true;
                model.kind[g] = MKind::Data;
                model.touched[g] = true;
            } else if wr[g] {
                ambiguous[g] = false;
                model.kind[g] = MKind::Data;
                model.touched[g] = true;
            } else if dc[g] && !ambiguous[g] {
                if matches!(model.kind[g], MKind::Data | MKind::ZeroPrealloc) {
                    model.kind[g] = MKind::Discarded;
                    model.touched[g] = true;
                }
            }
        }
        model.disk[..readable].copy_from_slice(&got[..readable]);
        stats.batches_done = bi + 1;
        if let Some(b) = trace.batch_events.last_mut() {
            b.1 = world.now();
        }
        if cfg.sync_after_batch {
            let f = drive(world, &mut seq_sched, dev.flush_meta());
            let ok = match f {
                Driven::Done(Ok(())) => matches!(drive(world, &mut seq_sched, dev.fsync_range(0, vsize as usize)), Driven::Done(Ok(()))),
                _ => false,
            };
            if !ok {
                return Err(tagged(Violation::new(Rule::ApiErr, format!("flush_meta + fsync_range at the quiescent point after batch {bi} failed")).at(bi).tag("quiescent")));
            }
            trace.sync_points.push((world.now(), model.disk.clone()));
        }

        if cfg.need_flush_check {
            if !dev.need_flush_meta() {
                stats.need_flush_false_samples += 1;
                need_flush_compare(world, model, &case.params, bi, stats).map_err(|v| tagged(v))?;
            } else {
                stats.need_flush_true_samples += 1;
            }
        }
    }

    let final_tags = |mut v: Violation| -> Violation {
        if seen_conc_discard {
            v.tags.push("hist:concurrent_discard".to_string());
        }
        if seen_conc_eviction {
            v.tags.push("hist:eviction_during_concurrency".to_string());
        }
        v
    };
    if cfg.final_reopen {
        if let Err(v) = final_reopen_check(case, world, model, &dev, &mut seq_sched, stats) {
            return Err(final_tags(v));
        }
    }
    drop(dev);
    Ok(())
}

fn final_reopen_check(case: &ConcCase, world: &World, model: &Model, dev: &Dev, seq_sched: &mut Sched, stats: &mut ConcStats) -> Result<(), Violation> {
    let vsize = model.vsize;
    let cs = model.cs;
    let bs = case.params.bs();
    {
        match drive(world, seq_sched, dev.flush_meta()) {
            Driven::Done(Ok(())) => {}
            Driven::Done(Err(e)) => return Err(Violation::new(Rule::ApiErr, format!("final flush_meta failed: {e:?}")).tag("flush")),
            Driven::Panic(m) => return Err(Violation::new(Rule::Panic, format!("final flush_meta panicked: {m}")).tag("flush").tag(format!("panic:{}", panic_site(&m)))),
            Driven::Deadlock => return Err(Violation::new(Rule::Deadlock, "final flush_meta blocked forever").tag("blocked:flush").tag("final_flush")),
            Driven::Budget => return Err(Violation::new(Rule::Budget, "final flush_meta exceeded the budget")),
        }
        let w2 = World::new();
        let n = world.0.borrow().files.len();
        for id in 0..n {
            w2.add_file(&layer_name(id), world.bytes(id));
        }
        let mut s2 = Sched::new(None);
        let d2 = match open_chain(&w2, 0, &case.params, true) {
            Ok(Ok(d)) => d,
            Ok(Err(e)) => return Err(Violation::new(Rule::ReopenOpen, format!("reopen after concurrent history failed: {e}"))),
            Err(p) => return Err(Violation::new(Rule::Panic, format!("reopen panicked: {p}")).tag("open").tag(format!("panic:{}", panic_site(&p)))),
        };
        let got = sweep(&w2, &mut s2, &d2, vsize, bs, cs, 99).map_err(|v| v.tag("reopened"))?;
        let readable = got.len() - got.len() % bs;
        if let Some((boff, exp, g)) = model.first_mismatch(0, &got[..readable]) {
            return Err(Violation::new(
                Rule::Reopen,
                format!("after flush + reopen guest offset {boff} holds {g}, the live device held {exp}"),
            )
            .tag("concurrent"));
        }
        stats.reopen_compares += 1;
    }
    Ok(())
}

fn need_flush_compare(world: &World, model: &Model, params: &DevParams, bi: usize, stats: &mut ConcStats) -> Result<(), Violation> {
    let w2 = World::new();
    let n = world.0.borrow().files.len();
    for id in 0..n {
        w2.add_file(&layer_name(id), world.bytes(id));
    }
    let rep = checker::check(&w2.bytes(0), Mode::Strict);
    if !rep.ok(Mode::Strict) {
        return Err(Violation::new(
            Rule::NeedFlush,
            format!("need_flush_meta() == false after batch {bi} but the file is not a valid image: {}", rep.summary(Mode::Strict)),
        )
        .at(bi));
    }
    let mut s2 = Sched::new(None);
    let d2 = match open_chain(&w2, 0, params, true) {
        Ok(Ok(d)) => d,
        Ok(Err(e)) => return Err(Violation::new(Rule::NeedFlush, format!("need_flush_meta() == false after batch {bi} but reopen failed: {e}")).at(bi)),
        Err(p) => return Err(Violation::new(Rule::NeedFlush, format!("need_flush_meta() == false after batch {bi} but reopen panicked: {p}")).at(bi)),
    };
    let got = sweep(&w2, &mut s2, &d2, model.vsize, params.bs(), model.cs, 7).map_err(|mut v| {
        v.rule = Rule::NeedFlush;
        v.at(bi)
    })?;
    let readable = got.len() - got.len() % params.bs();
    if let Some((boff, exp, g)) = model.first_mismatch(0, &got[..readable]) {
        return Err(Violation::new(
            Rule::NeedFlush,
            format!("need_flush_meta() == false after batch {bi} but a reopened device reads {g} at guest offset {boff} where the live device holds {exp}"),
        )
        .at(bi));
    }
    stats.reopen_compares += 1;
    Ok(())
}

// ---------------------------------------------------------------------------------------
// generator
// ---------------------------------------------------------------------------------------

pub struct ConcProfile {
    pub base: Profile,
    pub max_batches: usize,
    pub max_tasks: usize,
    pub max_calls: usize,
    /// weights: write, read, discard, flush, shrink
    pub op_weights: [u32; 5],
    /// percent of cases whose caches are forced to the 2..3 slice minimum
    pub small_cache_pct: u32,
}

impl Default for ConcProfile {
    fn default() -> Self {
        ConcProfile {
            base: Profile {
                sched_pct: 100,
                max_clusters: 32,
                cb_weights: [30, 22, 16, 20, 10, 2],
                depth_weights: [70, 22, 6, 2],
                ..Profile::default()
            },
            max_batches: 4,
            max_tasks: 6,
            max_calls: 3,
            op_weights: [45, 25, 14, 10, 6],
            small_cache_pct: 50,
        }
    }
}

pub fn decode_conc(raw: &RawCase, p: &ConcProfile) -> ConcCase {
    let (layers, mut params, _max_bs, used) = gen::gen_layers_params(raw, &p.base);
    let mut s = gen::Src::new(&raw.head[std::cmp::min(used, raw.head.len())..]);
    let cb = layers[0].cluster_bits();
    let cs = 1u64 << cb;
    let vsize = layers[0].vsize();
    let bs = 1u64 << params.bs_bits;
    if s.chance(p.small_cache_pct, 100) {
        let min_cb = layers.iter().map(|l| l.cluster_bits()).min().unwrap_or(cb);
        let bits = params.bs_bits + s.pick((min_cb - params.bs_bits + 1) as usize) as u8;
        let n = 2 + s.pick(2);
        params.l2 = Some((bits, n << bits));
        if s.chance(1, 2) {
            params.rb = Some((bits, (2 + s.pick(2)) << bits));
        }
    }
    let l2_slice_bits = params.l2.map(|x| x.0).unwrap_or(std::cmp::min(12, cb));
    let l2_slice_clusters = 1u64 << (l2_slice_bits - 3);
    let nclusters = vsize.div_ceil(cs);
    // arena: a few clusters most operations of the case concentrate on
    let arena_n = 1 + s.pick(5) as u64;
    let mut arena: Vec<u64> = Vec::new();
    for _ in 0..arena_n {
        arena.push(s.pick(nclusters as usize) as u64);
    }
    let nb = 1 + s.pick(p.max_batches);
    let mut batches = Vec::new();
    let mut it = raw.ops.iter();
    let mut id = 1u32;
    let max_len = if cb >= 15 { 2 * cs } else { 4 * cs };
    'outer: for _ in 0..nb {
        let nt = 2 + s.pick(p.max_tasks - 1);
        let mut tasks = Vec::new();
        for _ in 0..nt {
            let nc = 1 + s.pick(p.max_calls);
            let mut calls = Vec::new();
            for _ in 0..nc {
                let Some(r) = it.next() else {
                    if !calls.is_empty() {
                        tasks.push(calls);
                    }
                    if !tasks.is_empty() {
                        batches.push(tasks);
                    }
                    break 'outer;
                };
                let k = weighted1(r[0], &p.op_weights);
                let op = match k {
                    0 => {
                        let (off, len) = gen::gen_range(r, vsize, cs, bs, &arena, l2_slice_clusters, max_len);
                        id += 1;
                        Op::Write {
                            off,
                            len: len as usize,
                            pat: Pat { id, sparse: r[7] % 4 == 0 },
                        }
                    }
                    1 => {
                        let (off, len) = gen::gen_range(r, vsize, cs, bs, &arena, l2_slice_clusters, max_len);
                        Op::Read { off, len: len as usize }
                    }
                    2 => {
                        let (off, len) = gen::gen_range(r, vsize, cs, bs, &arena, l2_slice_clusters, 4 * cs);
                        let o = off - off % cs;
                        let l = std::cmp::max(cs, len.div_ceil(cs) * cs);
                        Op::Discard { off: o, len: l }
                    }
                    3 => Op::Flush,
                    _ => Op::Shrink,
                };
                calls.push(op);
            }
            tasks.push(calls);
        }
        batches.push(tasks);
    }
    ConcCase {
        layers,
        params,
        batches,
        sched: raw.sched.clone(),
        excluded: vec![],
    }
}

/// Known-finding ids (root causes shared by the C06/C07/C08/C18 entries)
pub const K_DISCARD_RACE: &str = "discard-not-synchronised-with-inflight-io";
pub const K_EVICTION_RACE: &str = "slice-eviction-under-concurrency";

/// (l2 slices the cache holds, l2 slices the image has, refblock slices held, refblock slices a
/// generously bounded host file needs)
pub fn cache_capacity(c: &ConcCase) -> (usize, usize, usize, usize) {
    let cb = c.layers[0].cluster_bits();
    let vsize = c.layers[0].vsize();
    let guest_clusters = vsize.div_ceil(1u64 << cb);
    let def_bits = std::cmp::min(12, cb);
    let (l2_bits, l2_have) = match c.params.l2 {
        Some((b, bytes)) => (b, bytes >> b),
        None => {
            let bytes = std::cmp::min(vsize >> (cb - 3), 32 << 20) as usize;
            (def_bits, std::cmp::max(bytes >> def_bits, 2))
        }
    };
    let l2_need = (guest_clusters * 8).div_ceil(1u64 << l2_bits) as usize + 4;
    let (rb_bits, rb_have) = match c.params.rb {
        Some((b, bytes)) => (b, bytes >> b),
        None => (def_bits, std::cmp::max((256usize << 10) >> def_bits, 2)),
    };
    let host_clusters = 4 * guest_clusters + 64;
    let order = c.layers[0].refcount_order();
    let per_slice = ((1u64 << (rb_bits + 3)) >> order).max(1);
    let rb_need = host_clusters.div_ceil(per_slice) as usize + 4;
    (l2_have, l2_need, rb_have, rb_need)
}

/// Exclusion by construction: remove the shapes that trigger active known findings.
pub fn apply_exclusions(c: &mut ConcCase, excl: &crate::runner::Exclusions) {
    let active = |root: &str| excl.active.iter().any(|f| f.id.ends_with(root));
    remove_shapes(c, active(K_DISCARD_RACE), active(K_EVICTION_RACE));
}

/// Remove the shapes of the two concurrency known findings from a case (counted in `excluded`)
pub fn remove_shapes(c: &mut ConcCase, discard_race: bool, eviction_race: bool) {
    if discard_race {
        // a discard never runs concurrently with another call: it gets a batch of its own
        let mut out: Vec<Vec<Vec<Op>>> = Vec::new();
        let mut changed = false;
        for b in c.batches.drain(..) {
            let has_discard = b.iter().flatten().any(|o| matches!(o, Op::Discard { .. }));
            if b.len() > 1 && has_discard {
                changed = true;
                let mut rest: Vec<Vec<Op>> = Vec::new();
                let mut discards: Vec<Op> = Vec::new();
                for t in b {
                    let (d, o): (Vec<Op>, Vec<Op>) = t.into_iter().partition(|o| matches!(o, Op::Discard { .. }));
                    discards.extend(d);
                    if !o.is_empty() {
                        rest.push(o);
                    }
                }
                if !rest.is_empty() {
                    out.push(rest);
                }
                out.push(vec![discards]);
            } else {
                out.push(b);
            }
        }
        c.batches = out;
        if changed {
            c.excluded.push(K_DISCARD_RACE.to_string());
        }
    }
    if eviction_race {
        // caches large enough that no slice is ever evicted while tasks run concurrently
        let cb = c.layers[0].cluster_bits();
        let def_bits = std::cmp::min(12, cb);
        let (l2_have, l2_need, rb_have, rb_need) = cache_capacity(c);
        let mut changed = false;
        if l2_have < l2_need {
            let bits = c.params.l2.map(|x| x.0).unwrap_or(def_bits);
            c.params.l2 = Some((bits, l2_need << bits));
            changed = true;
        }
        if rb_have < rb_need {
            let bits = c.params.rb.map(|x| x.0).unwrap_or(def_bits);
            c.params.rb = Some((bits, rb_need << bits));
            changed = true;
        }
        if changed {
            c.excluded.push(K_EVICTION_RACE.to_string());
        }
    }
}
