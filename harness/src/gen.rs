//! Generators. A case is decoded deterministically from a `RawCase` (small integers drawn
//! by proptest), using monotone mappings so that shrinking the raw values shrinks the case.
use crate::case::*;
use crate::pat::Pat;
use crate::spec::builder::{CKind, ImageSpec};
use proptest::prelude::*;
use serde::{Deserialize, Serialize};

#[derive(Clone, Debug, Serialize, Deserialize, PartialEq, Eq)]
pub struct RawCase {
    pub head: Vec<u16>,
    pub img: Vec<[u16; 2]>,
    pub ops: Vec<[u16; 8]>,
    pub sched: Vec<u16>,
    pub extra: Vec<u16>,
}

pub const HEAD_LEN: usize = 48;

/// choice value biased towards 0 (the "default" decision)
fn sched_choice() -> impl Strategy<Value = u16> {
    prop_oneof![
        6 => Just(0u16),
        3 => any::<u16>(),
        1 => (0u16..8192),
    ]
}

pub fn raw_strategy(max_img: usize, max_ops: usize, max_sched: usize, max_extra: usize) -> impl Strategy<Value = RawCase> {
    (
        prop::collection::vec(any::<u16>(), HEAD_LEN),
        prop::collection::vec(prop::array::uniform2(any::<u16>()), 0..=max_img),
        prop::collection::vec(prop::array::uniform8(any::<u16>()), 0..=max_ops),
        prop::collection::vec(sched_choice(), 0..=max_sched),
        prop::collection::vec(any::<u16>(), 0..=max_extra),
    )
        .prop_map(|(head, img, ops, sched, extra)| RawCase {
            head,
            img,
            ops,
            sched,
            extra,
        })
}

/// Sequential reader of choices; exhausted = 0
pub struct Src<'a> {
    d: &'a [u16],
    i: usize,
}

impl<'a> Src<'a> {
    pub fn new(d: &'a [u16]) -> Self {
        Src { d, i: 0 }
    }
    pub fn next(&mut self) -> u16 {
        let v = self.d.get(self.i).copied().unwrap_or(0);
        self.i += 1;
        v
    }
    /// monotone pick in 0..n
    pub fn pick(&mut self, n: usize) -> usize {
        if n == 0 {
            return 0;
        }
        ((self.next() as usize) * n) >> 16
    }
    pub fn range(&mut self, lo: u64, hi_incl: u64) -> u64 {
        if hi_incl <= lo {
            return lo;
        }
        let span = hi_incl - lo + 1;
        if span <= 65536 {
            lo + (((self.next() as u64) * span) >> 16)
        } else {
            let a = self.next() as u64;
            let b = self.next() as u64;
            let v = (a << 16) | b;
            lo + ((v as u128 * span as u128) >> 32) as u64
        }
    }
    /// index chosen with the given weights (first entries are the "simple" ones)
    pub fn weighted(&mut self, w: &[u32]) -> usize {
        let total: u32 = w.iter().sum();
        let mut x = ((self.next() as u64 * total as u64) >> 16) as u32;
        for (i, &wi) in w.iter().enumerate() {
            if x < wi {
                return i;
            }
            x -= wi;
        }
        w.len() - 1
    }
    pub fn chance(&mut self, num: u32, den: u32) -> bool {
        // true with probability num/den; value 0 => false (shrinks towards false)
        let x = ((self.next() as u64 * den as u64) >> 16) as u32;
        x >= den - num
    }
}

/// pick with a single raw value (not from a stream)
pub fn pick1(v: u16, n: usize) -> usize {
    if n == 0 {
        0
    } else {
        ((v as usize) * n) >> 16
    }
}
pub fn weighted1(v: u16, w: &[u32]) -> usize {
    let total: u32 = w.iter().sum();
    let mut x = ((v as u64 * total as u64) >> 16) as u32;
    for (i, &wi) in w.iter().enumerate() {
        if x < wi {
            return i;
        }
        x -= wi;
    }
    w.len() - 1
}

#[derive(Clone, Debug)]
pub struct Profile {
    pub max_ops: usize,
    /// weights: write, read, discard, flush, fsync, shrink, reopen
    pub op_weights: [u32; 7],
    /// weights for chain depth 0,1,2,3
    pub depth_weights: [u32; 4],
    /// probability (percent) that the top image is formatted by the library (only if no backing)
    pub formatted_pct: u32,
    /// weights of cluster kinds in built images: unalloc, data, zeroflag, zeroprealloc, compressed
    pub kind_weights: [u32; 5],
    /// weights for cluster_bits classes: 9,10,11,12,13..16,17..21
    pub cb_weights: [u32; 6],
    /// percent of cases run under the executor (intra-call completion order)
    pub sched_pct: u32,
    /// max guest clusters (small clusters)
    pub max_clusters: u64,
    /// percent of cases with library default cache parameters
    pub default_cache_pct: u32,
    /// allow virtual sizes that are not cluster multiples
    pub partial_tail: bool,
    /// small-capacity geometries for growth: restrict refcount_order to >= this
    pub min_refcount_order: u8,
    pub max_cluster_bits: u8,
    /// allow headers whose l1_size is smaller than the virtual size needs
    pub l1_short_pct: u32,
    /// allow multi-L1 virtual sizes
    pub multi_l1: bool,
    /// longest write in clusters (small clusters)
    pub max_write_clusters: u64,
    /// weights for refcount_order 0..6 (None = uniform from min_refcount_order)
    pub order_weights: Option<[u32; 7]>,
    /// percent of 512-byte-cluster images whose L1 table spans several 512-byte blocks
    pub wide_l1_pct: u32,
    /// weights of the size classes: 1..4 clusters, <= 24, <= max_clusters, several L1 entries
    pub vsize_weights: [u32; 4],
    /// longest discard in clusters
    pub max_discard_clusters: u64,
    /// force 512-byte refcount-block cache slices (and 512-byte blocks): a refcount block then
    /// consists of many slices, which the allocator walks one by one
    pub small_rb_slices_pct: u32,
    /// percent of built images with garbage-filled free clusters behind the last used one
    pub stale_tail_pct: u32,
    /// percent of 1 KiB-cluster images with 33..63 L1 entries (4..8 MiB): L2 tables cached as
    /// two slices whose L1 entries sit in the second half of an L1 block
    pub tall_l1_pct: u32,
    /// repeat the cluster-kind choices until the whole image is covered (otherwise only the first
    /// clusters of a large image get a kind and the rest stays unallocated)
    pub kinds_cycle: bool,
}

impl Default for Profile {
    fn default() -> Self {
        Profile {
            max_ops: 40,
            op_weights: [40, 30, 10, 6, 2, 4, 5],
            depth_weights: [65, 25, 8, 2],
            formatted_pct: 40,
            kind_weights: [30, 30, 8, 7, 25],
            cb_weights: [25, 20, 15, 20, 15, 5],
            sched_pct: 30,
            max_clusters: 200,
            default_cache_pct: 25,
            partial_tail: true,
            min_refcount_order: 0,
            max_cluster_bits: 21,
            l1_short_pct: 0,
            multi_l1: true,
            wide_l1_pct: 8,
            vsize_weights: [30, 40, 20, 10],
            max_discard_clusters: 8,
            small_rb_slices_pct: 0,
            stale_tail_pct: 40,
            tall_l1_pct: 0,
            kinds_cycle: false,
            max_write_clusters: 8,
            order_weights: None,
        }
    }
}

pub fn gen_cluster_bits(s: &mut Src, p: &Profile) -> u8 {
    let cb = match s.weighted(&p.cb_weights) {
        0 => 9,
        1 => 10,
        2 => 11,
        3 => 12,
        4 => 13 + s.pick(4) as u8,
        _ => 17 + s.pick(5) as u8,
    };
    std::cmp::min(cb, p.max_cluster_bits)
}

pub fn gen_cache(s: &mut Src, bs_bits: u8, cb: u8, default_pct: u32) -> Option<(u8, usize)> {
    if s.chance(default_pct, 100) {
        return None;
    }
    let bits = bs_bits + s.pick((cb - bs_bits + 1) as usize) as u8;
    let cnt = match s.weighted(&[40, 15, 15, 15, 15]) {
        0 => 2,
        1 => 3,
        2 => 4,
        3 => 8,
        _ => 64,
    };
    Some((bits, cnt << bits))
}

pub fn gen_params(s: &mut Src, cb: u8, max_bs_bits: u8, default_pct: u32) -> DevParams {
    let hi = std::cmp::min(std::cmp::min(12, cb), max_bs_bits);
    let bs_bits = 9 + s.pick((hi - 9 + 1) as usize) as u8;
    let l2 = gen_cache(s, bs_bits, cb, default_pct);
    let rb = gen_cache(s, bs_bits, cb, default_pct);
    DevParams { bs_bits, l2, rb }
}

/// number of guest clusters and the virtual size (multiple of 1 << align_bits)
pub fn gen_vsize(s: &mut Src, cb: u8, align_bits: u8, p: &Profile) -> u64 {
    let cs = 1u64 << cb;
    let l2e = cs / 8;
    let big = cb >= 17;
    let n = if big {
        1 + s.pick(6) as u64
    } else if p.tall_l1_pct > 0 && p.multi_l1 && cb == 10 && s.chance(p.tall_l1_pct, 100) {
        l2e * (33 + s.pick(31) as u64) - s.pick(8) as u64
    } else if p.multi_l1 && cb == 9 && s.chance(p.wide_l1_pct, 100) {
        // wide L1: more than 64 entries, i.e. the L1 table spans several 512-byte blocks of
        // the top-table dirty-block queue (2..2.3 MiB virtual size)
        l2e * (64 + s.pick(6) as u64) + 1 + s.pick(8) as u64
    } else {
        match s.weighted(&p.vsize_weights) {
            0 => 1 + s.pick(4) as u64,
            1 => 1 + s.pick(std::cmp::min(p.max_clusters, 24) as usize) as u64,
            2 => {
                // up to max_clusters, but at most 2 MiB of guest space (sweeps read all of it)
                let cap = std::cmp::max(24, (2u64 << 20) / cs);
                1 + s.pick(std::cmp::min(p.max_clusters, cap) as usize) as u64
            }
            _ => {
                // several L1 entries (only affordable for small clusters)
                if p.multi_l1 && cb <= 10 {
                    l2e * (1 + s.pick(3) as u64) + 1 + s.pick(8) as u64
                } else {
                    1 + s.pick(p.max_clusters as usize) as u64
                }
            }
        }
    };
    let mut vsize = n * cs;
    if p.partial_tail && cb > align_bits && s.chance(25, 100) {
        // cut the last cluster short, keeping the required alignment
        let unit = 1u64 << align_bits;
        let blocks_per_cluster = cs / unit;
        let cut = 1 + s.pick((blocks_per_cluster - 1) as usize) as u64;
        vsize -= cut * unit;
    }
    vsize
}

fn gen_kinds(img: &[[u16; 2]], n: u64, w: &[u32; 5], version: u8) -> Vec<CKind> {
    let mut v = Vec::new();
    let mut seed = 0u8;
    for e in img {
        if v.len() as u64 >= n {
            break;
        }
        let k = weighted1(e[0], w);
        let run = 1 + pick1(e[1], 6);
        for _ in 0..run {
            if v.len() as u64 >= n {
                break;
            }
            seed = seed.wrapping_add(1);
            let sparse = seed % 5 == 0;
            v.push(match k {
                0 => CKind::Unalloc,
                1 => CKind::Data(seed, sparse),
                2 if version >= 3 => CKind::ZeroFlag,
                3 if version >= 3 => CKind::ZeroPrealloc,
                4 => CKind::Compressed(seed),
                _ => CKind::Unalloc,
            });
        }
    }
    v
}

#[allow(clippy::too_many_arguments)]
pub fn gen_built(s: &mut Src, img: &[[u16; 2]], cb: u8, ro: u8, version: u8, vsize: u64, layer: usize, p: &Profile) -> ImageSpec {
    let mut spec = ImageSpec::simple(cb, ro, vsize);
    spec.version = version;
    spec.id_base = 0x4000_0000 + ((layer as u32) << 20);
    let n = spec.guest_clusters();
    // rotate the img choices per layer so that layers differ
    let rot = if img.is_empty() { 0 } else { (layer * 7) % img.len() };
    let mut rotated = img[rot..].to_vec();
    rotated.extend_from_slice(&img[..rot]);
    if p.kinds_cycle && !rotated.is_empty() {
        let base = rotated.clone();
        let mut k = 0u16;
        while (rotated.len() as u64) < n && rotated.len() < 4000 {
            // vary the repeated choices a little so that runs do not line up with anything
            k = k.wrapping_add(7919);
            rotated.extend(base.iter().map(|e| [e[0], e[1].wrapping_add(k)]));
        }
    }
    spec.clusters = gen_kinds(&rotated, n, &p.kind_weights, version);
    spec.ext_backing_fmt = s.chance(1, 3);
    spec.ext_feature_table = s.chance(1, 4);
    if s.chance(1, 5) {
        let len = s.pick(40);
        spec.ext_unknown = Some((0x1234_0000 + s.pick(16) as u32, (0..len).map(|i| (i * 3 + 1) as u8).collect()));
    }
    // header lists more L1 entries than the virtual size needs: a few, or enough to push the
    // table past the next block / cluster boundary
    spec.l1_extra = match s.weighted(&[70, 20, 10]) {
        0 => 0,
        1 => 1 + s.pick(3) as u32,
        _ => 40 + s.pick(100) as u32,
    };
    spec.rt_extra = if s.chance(1, 6) { 1 } else { 0 };
    spec.gap_every = if s.chance(1, 3) { 1 + s.pick(5) as u8 } else { 0 };
    spec.comp_sector_align = s.chance(1, 4);
    if s.chance(1, 2) {
        let k = 2 + s.pick(30);
        spec.order = (0..k).map(|_| s.next()).collect();
    }
    if p.l1_short_pct > 0 && s.chance(p.l1_short_pct, 100) {
        spec.l1_short = true;
        spec.l1_extra = 0;
    }
    if s.chance(p.stale_tail_pct, 100) {
        spec.stale_tail = 4 + s.pick(60) as u8;
    }
    if version >= 3 && s.chance(15, 100) {
        // version 3 header of 104 bytes (older qemu) or with unknown trailing fields
        spec.hdr_len = [104u16, 104, 120, 128, 192][s.pick(5)];
    }
    spec
}

pub struct Decoded {
    pub case: SeqCase,
    /// largest bs_bits any parameter set of the case uses
    pub max_bs_bits: u8,
}

/// Decode the static part (layers + params); returns the source for further head choices.
pub fn gen_layers_params(raw: &RawCase, p: &Profile) -> (Vec<LayerSpec>, DevParams, u8, usize) {
    let mut s = Src::new(&raw.head);
    let cb = gen_cluster_bits(&mut s, p);
    let version: u8 = if s.chance(1, 5) { 2 } else { 3 };
    let ro = if version == 2 {
        4
    } else {
        match &p.order_weights {
            Some(w) => s.weighted(w) as u8,
            None => {
                let lo = p.min_refcount_order;
                lo + s.pick((6 - lo + 1) as usize) as u8
            }
        }
    };
    let max_bs_bits = {
        let hi = std::cmp::min(12, cb);
        let k = s.weighted(&[50, 17, 17, 16]);
        std::cmp::min(9 + k as u8, hi)
    };
    // chain shape first: every layer is opened with the same parameters, so block size and
    // custom slice sizes must not exceed the smallest cluster size of the chain
    let depth = s.weighted(&p.depth_weights);
    let mut bcbs = Vec::new();
    for _ in 0..depth {
        let bcb = if s.chance(3, 5) { cb } else { std::cmp::min(9 + s.pick(4) as u8, p.max_cluster_bits) };
        bcbs.push(std::cmp::max(bcb, max_bs_bits));
    }
    let min_cb = bcbs.iter().copied().fold(cb, std::cmp::min);
    let mut params = gen_params(&mut s, min_cb, max_bs_bits, p.default_cache_pct);
    if p.small_rb_slices_pct > 0 && s.chance(p.small_rb_slices_pct, 100) {
        // 512-byte blocks and refcount-block slices; a small or a large slice cache
        params.bs_bits = 9;
        let cnt = [2usize, 4, 8, 64][s.pick(4)];
        params.rb = Some((9, cnt << 9));
    }
    let vsize = gen_vsize(&mut s, cb, max_bs_bits, p);
    let mut layers = Vec::new();
    if depth == 0 && s.chance(p.formatted_pct, 100) {
        layers.push(LayerSpec::Formatted {
            cluster_bits: cb,
            refcount_order: if version == 2 { 4 } else { ro },
            vsize,
            fmt_bs_bits: params.bs_bits,
        });
    } else {
        layers.push(LayerSpec::Built(gen_built(&mut s, &raw.img, cb, ro, version, vsize, 0, p)));
        for l in 1..=depth {
            // backing layers: own geometry, size shorter / equal / longer than the top
            let bcb = bcbs[l - 1];
            let bro = s.pick(7) as u8;
            let bver: u8 = if s.chance(1, 5) { 2 } else { 3 };
            let bcs = 1u64 << bcb;
            let unit = 1u64 << max_bs_bits;
            let bsize = match s.weighted(&[40, 35, 25]) {
                0 => vsize,
                1 => {
                    // shorter (at least one block), not necessarily a cluster multiple
                    let blocks = vsize / unit;
                    std::cmp::max(1, (blocks * (1 + s.pick(15) as u64)) / 16) * unit
                }
                _ => vsize + (1 + s.pick(4) as u64) * bcs,
            };
            let bsize = std::cmp::min(bsize, 64 * bcs.max(1 << cb) + vsize);
            // keep backing images small for large clusters
            let bsize = if bcb >= 13 { std::cmp::min(bsize, 8 * bcs) } else { bsize };
            let bsize = std::cmp::max(bsize, unit);
            let bsize = bsize - bsize % unit;
            let mut bp = p.clone();
            bp.l1_short_pct = 0;
            layers.push(LayerSpec::Built(gen_built(&mut s, &raw.img, bcb, bro, bver, bsize, l, &bp)));
        }
    }
    (layers, params, max_bs_bits, s.i)
}

/// Offsets are constructed to hit interesting places: cluster g, block offset class, length class.
#[allow(clippy::too_many_arguments)]
pub fn gen_range(r: &[u16], vsize: u64, cs: u64, bs: u64, hot: &[u64], l2_slice_clusters: u64, max_len: u64) -> (u64, u64) {
    let nclusters = vsize.div_ceil(cs);
    // cluster choice: hot set / boundary of slice / uniform
    let g = match weighted1(r[1], &[45, 35, 10, 10]) {
        0 if !hot.is_empty() => hot[pick1(r[2], hot.len())],
        2 => {
            // first/last cluster of an L2 slice
            let slices = nclusters.div_ceil(l2_slice_clusters);
            let sl = pick1(r[2], slices as usize) as u64;
            let g = sl * l2_slice_clusters;
            if r[2] & 1 == 1 && g > 0 {
                g - 1
            } else {
                g
            }
        }
        3 => nclusters - 1,
        _ => pick1(r[2], nclusters as usize) as u64,
    };
    let g = std::cmp::min(g, nclusters - 1);
    let cstart = g * cs;
    let cend = std::cmp::min(cstart + cs, vsize);
    let blocks = (cend - cstart) / bs; // blocks in this cluster (>=1 when vsize is bs aligned)
    let blocks = std::cmp::max(blocks, 1);
    let boff = match weighted1(r[3], &[40, 20, 40]) {
        0 => 0,
        1 => blocks - 1,
        _ => pick1(r[4], blocks as usize) as u64,
    };
    let off = cstart + boff * bs;
    let to_cluster_end = cend - off;
    let len = match weighted1(r[5], &[25, 20, 20, 15, 20]) {
        0 => bs,
        1 => to_cluster_end,
        2 => to_cluster_end + bs * (1 + pick1(r[6], 4) as u64),
        3 => {
            let lim = std::cmp::max(6, (max_len / cs) as usize);
            let k = 1 + pick1(r[6], lim) as u64;
            to_cluster_end + k * cs
        }
        _ => bs * (1 + pick1(r[6], std::cmp::max(blocks as usize, 1)) as u64),
    };
    let len = std::cmp::min(len, vsize - off);
    let len = std::cmp::min(len, max_len);
    let len = std::cmp::max(len - len % bs, bs);
    (off, len)
}

/// Decode a sequential case for valid-use properties.
pub fn decode_seq(raw: &RawCase, p: &Profile) -> Decoded {
    let (layers, params, max_bs_bits, used) = gen_layers_params(raw, p);
    let mut s = Src::new(&raw.head[std::cmp::min(used, raw.head.len())..]);
    let cb = layers[0].cluster_bits();
    let cs = 1u64 << cb;
    let vsize = layers[0].vsize();
    let mut cur = params.clone();
    let mut ops = Vec::new();
    let mut hot: Vec<u64> = Vec::new();
    let sched = if s.chance(p.sched_pct, 100) { Some(raw.sched.clone()) } else { None };
    let max_len = if cb >= 17 { 3 * cs } else { p.max_write_clusters * cs };
    for (i, r) in raw.ops.iter().take(p.max_ops).enumerate() {
        let bs = 1u64 << cur.bs_bits;
        let l2_slice_bits = cur.l2.map(|x| x.0).unwrap_or(std::cmp::min(12, cb));
        let l2_slice_clusters = 1u64 << (l2_slice_bits - 3);
        let k = weighted1(r[0], &p.op_weights);
        let op = match k {
            0 => {
                let (off, len) = gen_range(r, vsize, cs, bs, &hot, l2_slice_clusters, max_len);
                hot.push(off / cs);
                hot.push((off + len - 1) / cs);
                Op::Write {
                    off,
                    len: len as usize,
                    pat: Pat {
                        id: i as u32 + 1,
                        sparse: r[7] % 4 == 0,
                    },
                }
            }
            1 => {
                let (off, len) = gen_range(r, vsize, cs, bs, &hot, l2_slice_clusters, max_len);
                Op::Read { off, len: len as usize }
            }
            2 => {
                // discard: cluster aligned most of the time, sometimes off by a block, sometimes huge
                let (off, len) = gen_range(r, vsize, cs, bs, &hot, l2_slice_clusters, p.max_discard_clusters * cs);
                match weighted1(r[7], &[55, 15, 15, 15]) {
                    0 => {
                        let o = off - off % cs;
                        let l = std::cmp::max(cs, (len + cs - 1) / cs * cs);
                        Op::Discard { off: o, len: l }
                    }
                    1 => Op::Discard { off, len },
                    2 => Op::Discard {
                        off: off - off % cs,
                        len: vsize + cs,
                    },
                    _ => Op::Discard {
                        off: (off - off % cs).saturating_sub(bs),
                        len: len + 2 * cs + bs,
                    },
                }
            }
            3 => Op::Flush,
            4 => Op::Fsync,
            5 => Op::Shrink,
            _ => {
                let mut ps = Src::new(&r[1..]);
                let min_cb = layers.iter().map(|l| l.cluster_bits()).min().unwrap_or(cb);
                let np = gen_params(&mut ps, min_cb, max_bs_bits, p.default_cache_pct);
                cur = np.clone();
                Op::Reopen { params: np }
            }
        };
        ops.push(op);
    }
    Decoded {
        case: SeqCase {
            layers,
            params,
            read_only: false,
            ops,
            sched,
            faults: None,
            reopen_params: vec![],
            excluded: vec![],
        },
        max_bs_bits,
    }
}

/// Independently drawn legal parameter sets for reopening the chain of `case`
pub fn gen_reopen_params(extra: &[u16], case: &SeqCase, max_bs_bits: u8, n: usize) -> Vec<DevParams> {
    let mut s = Src::new(extra);
    let min_cb = case.layers.iter().map(|l| l.cluster_bits()).min().unwrap_or(9);
    (0..n).map(|_| gen_params(&mut s, min_cb, max_bs_bits, 20)).collect()
}

impl RawCase {
    /// Decode a fuzzer-provided byte string into a RawCase (structure-aware: fixed head, then
    /// counts, then little-endian u16 values; missing bytes read as 0).
    pub fn from_bytes(data: &[u8]) -> RawCase {
        let mut i = 0usize;
        let mut u16s = || -> u16 {
            let a = data.get(i).copied().unwrap_or(0) as u16;
            let b = data.get(i + 1).copied().unwrap_or(0) as u16;
            i += 2;
            a | (b << 8)
        };
        let head: Vec<u16> = (0..HEAD_LEN).map(|_| u16s()).collect();
        let n_img = (u16s() % 25) as usize;
        let n_ops = (u16s() % 41) as usize;
        let n_sched = (u16s() % 201) as usize;
        let n_extra = (u16s() % 49) as usize;
        let img = (0..n_img).map(|_| [u16s(), u16s()]).collect();
        let ops = (0..n_ops).map(|_| [u16s(), u16s(), u16s(), u16s(), u16s(), u16s(), u16s(), u16s()]).collect();
        let sched = (0..n_sched).map(|_| u16s()).collect();
        let extra = (0..n_extra).map(|_| u16s()).collect();
        RawCase { head, img, ops, sched, extra }
    }

    /// Inverse of `from_bytes` (used to seed fuzz corpora from proptest-generated cases)
    pub fn to_bytes(&self) -> Vec<u8> {
        let mut out = Vec::new();
        let mut put = |v: u16| out.extend_from_slice(&v.to_le_bytes());
        for k in 0..HEAD_LEN {
            put(self.head.get(k).copied().unwrap_or(0));
        }
        put(self.img.len().min(24) as u16);
        put(self.ops.len().min(40) as u16);
        put(self.sched.len().min(200) as u16);
        put(self.extra.len().min(48) as u16);
        for e in self.img.iter().take(24) {
            put(e[0]);
            put(e[1]);
        }
        for o in self.ops.iter().take(40) {
            for v in o {
                put(*v);
            }
        }
        for v in self.sched.iter().take(200) {
            put(*v);
        }
        for v in self.extra.iter().take(48) {
            put(*v);
        }
        out
    }
}
