//! Crash engine: runs a sequential history with durability tracking, derives crash images
//! from the request log (systematic subsets + generated per-block tearing) and judges them.
use crate::case::*;
use crate::engine::*;
use crate::gen::{pick1, RawCase};
use crate::pat::BLK;
use crate::sim::{CrashBase, ReqKind, World};
use crate::spec::checker::{self, Mode};
use serde::{Deserialize, Serialize};
use std::collections::{BTreeSet, HashSet};

#[derive(Clone, Debug, PartialEq, Eq, Serialize, Deserialize)]
pub struct CrashCase {
    pub seq: SeqCase,
    /// choices for extra crash points and per-block tearing
    pub crash: Vec<u16>,
}

#[derive(Clone, Debug)]
pub struct CrashCfg {
    /// C04: every crash image must pass the crash-safe checker
    pub check_safe: bool,
    /// C05: every crash image after a sync point must open and hold synced-or-later values
    pub check_durable: bool,
    pub max_points: usize,
    pub max_subset_k: usize,
    pub torn_per_point: usize,
    pub max_images: usize,
}

#[derive(Clone, Debug, Default, Serialize, Deserialize)]
pub struct CrashStats {
    pub ops_done: usize,
    pub requests: usize,
    pub events: u64,
    pub points: usize,
    pub images: usize,
    pub distinct_images: usize,
    pub nontrivial_images: usize,
    pub torn_images: usize,
    pub max_volatile: usize,
    pub points_inside_flush: usize,
    pub points_inside_write: usize,
    pub points_inside_discard: usize,
    pub sync_points: usize,
    pub durable_checks: usize,
    pub later_op_shares_cluster: usize,
    pub leaked_images: usize,
}

pub struct CrashRun {
    pub growth: Growth,
    pub violation: Option<Violation>,
    /// the history itself broke a rule of another property
    pub foreign: Option<Violation>,
    pub inconclusive: Option<String>,
    pub stats: CrashStats,
}

fn fnv(b: &[u8]) -> u64 {
    let mut h = 0xcbf2_9ce4_8422_2325u64;
    for c in b.chunks(8) {
        let mut a = [0u8; 8];
        a[..c.len()].copy_from_slice(c);
        h ^= u64::from_le_bytes(a);
        h = h.wrapping_mul(0x100_0000_01b3);
    }
    h ^ b.len() as u64
}

/// Which op (index) was executing at event `p`
fn op_at(op_events: &[(u64, u64)], p: u64) -> Option<usize> {
    op_events.iter().position(|(s, e)| *s <= p && p <= *e)
}

/// What the crash analysis needs from an executed history (sequential or concurrent)
pub struct CrashInput<'a> {
    pub world: &'a World,
    pub model: &'a crate::model::Model,
    pub bs: usize,
    pub params: DevParams,
    pub sync_points: &'a [(u64, Vec<u8>)],
    /// modifying operations with (a lower bound of) the event at which they were invoked
    pub calls: Vec<(u64, Op)>,
    /// what was executing at an event: (index of the operation or batch, kind)
    pub phase: Box<dyn Fn(u64) -> (Option<usize>, &'static str) + 'a>,
}

pub fn run_crash(case: &CrashCase, cfg: &CrashCfg) -> CrashRun {
    let mut out = CrashRun {
        growth: Growth::default(),
        violation: None,
        foreign: None,
        inconclusive: None,
        stats: CrashStats::default(),
    };
    let scfg = SeqCfg {
        sweep: false,
        check_on_flush: false,
        reopen_on_flush: false,
        mapping_check: false,
        align: false,
        final_flush: false,
        release_check: false,
        keep_data: true,
        record_syncs: true,
        track_growth: true,
        ..SeqCfg::default()
    };
    let run = run_seq(&case.seq, &scfg);
    out.growth = run.growth.clone();
    out.stats.ops_done = run.stats.ops_done;
    out.stats.requests = run.stats.requests;
    if let Some(m) = run.inconclusive {
        out.inconclusive = Some(m);
        return out;
    }
    // a history cut short by another property's rule is still a history: the log up to that
    // point is valid input for crash analysis (the failing call simply never returned)
    out.foreign = run.violation.clone();
    let world = run.world.clone();
    let bs = run.final_params.as_ref().map(|p| p.bs()).unwrap_or(case.seq.params.bs());
    let calls: Vec<(u64, Op)> = run
        .op_events
        .iter()
        .enumerate()
        .filter_map(|(i, (s, _))| case.seq.ops.get(i).filter(|o| o.modifies()).map(|o| (*s, o.clone())))
        .collect();
    let op_events = run.op_events.clone();
    let ops = case.seq.ops.clone();
    let inp = CrashInput {
        world: &world,
        model: &run.model,
        bs,
        params: run.final_params.clone().unwrap_or(case.seq.params.clone()),
        sync_points: &run.sync_points,
        calls,
        phase: Box::new(move |p| {
            let i = op_at(&op_events, p);
            (i, i.and_then(|i| ops.get(i)).map(|o| o.kind()).unwrap_or("-"))
        }),
    };
    analyse(&inp, &case.crash, cfg, &mut out);
    out
}

/// Enumerate crash points and crash images of an executed history and judge them
pub fn analyse(inp: &CrashInput, crash: &[u16], cfg: &CrashCfg, out: &mut CrashRun) {
    let world = inp.world;
    let bs = inp.bs;
    let cs = inp.model.cs;
    let last_ev = world.now();
    out.stats.events = last_ev;
    out.stats.sync_points = inp.sync_points.len();

    // ---- crash points ------------------------------------------------------------------
    let mut pts: Vec<u64> = Vec::new();
    let mut rest: Vec<u64> = Vec::new();
    {
        let w = world.0.borrow();
        for r in w.log.iter().filter(|r| r.file == 0) {
            let c = r.complete_ev.unwrap_or(r.submit_ev);
            match r.kind {
                ReqKind::Fsync => {
                    pts.push(r.submit_ev.saturating_sub(1));
                    pts.push(r.submit_ev);
                }
                ReqKind::Write | ReqKind::Punch => {
                    if r.len < cs || r.off == 0 || r.kind == ReqKind::Punch {
                        pts.push(r.submit_ev);
                        pts.push(c);
                    } else {
                        rest.push(r.submit_ev);
                        rest.push(c);
                    }
                }
                ReqKind::Read => {}
            }
        }
    }
    pts.push(last_ev);
    // generated extra points
    for c in crash.iter().take(8) {
        pts.push(1 + pick1(*c, last_ev as usize) as u64);
    }
    pts.extend(rest);
    let mut seen = BTreeSet::new();
    pts.retain(|p| *p >= 1 && *p <= last_ev && seen.insert(*p));
    if pts.len() > cfg.max_points {
        // keep an evenly spaced subset (deterministic)
        let n = pts.len();
        let keep: Vec<u64> = (0..cfg.max_points).map(|i| pts[i * n / cfg.max_points]).collect();
        pts = keep;
    }
    pts.sort_unstable();

    let mut seen_img: HashSet<u64> = HashSet::new();
    let mut crash_src = crash.iter().skip(8).copied().chain(std::iter::repeat(0));
    let mut images_left = cfg.max_images;

    for &p in &pts {
        if images_left == 0 {
            break;
        }
        let base: CrashBase = world.crash_base(p);
        let k = base.volatile.len();
        if k == 0 {
            continue;
        }
        out.stats.points += 1;
        out.stats.max_volatile = std::cmp::max(out.stats.max_volatile, k);
        let (opi, phase) = (inp.phase)(p);
        match phase {
            "flush" | "shrink" | "reopen" => out.stats.points_inside_flush += 1,
            "write" => out.stats.points_inside_write += 1,
            "discard" => out.stats.points_inside_discard += 1,
            _ => {}
        }
        let has_meta = base.volatile.iter().any(|v| v.len < cs || v.off == 0 || v.data.is_none());
        let all_img = base.image_subset(&|_| true);
        let all_h = fnv(&all_img);
        let dur_h = fnv(&base.durable);

        // families of whole-request subsets
        let mut subsets: Vec<Vec<bool>> = Vec::new();
        subsets.push(vec![false; k]);
        subsets.push(vec![true; k]);
        for i in 0..k {
            let mut a = vec![false; k];
            a[i] = true;
            subsets.push(a);
            let mut b = vec![true; k];
            b[i] = false;
            subsets.push(b);
        }
        if k <= cfg.max_subset_k {
            for m in 0..(1u32 << k) {
                subsets.push((0..k).map(|i| m & (1 << i) != 0).collect());
            }
        } else {
            // prefix families: the first j requests persisted (in-order) and the reverse
            for j in 1..k {
                subsets.push((0..k).map(|i| i < j).collect());
                subsets.push((0..k).map(|i| i >= j).collect());
            }
        }
        let mut imgs: Vec<(Vec<u8>, String, bool)> = Vec::new();
        for s in subsets {
            let img = base.image_subset(&|i| s[i]);
            let desc = format!("subset {:?}", s.iter().map(|b| if *b { '1' } else { '0' }).collect::<String>());
            imgs.push((img, desc, false));
        }
        for _ in 0..cfg.torn_per_point {
            let mut picks = Vec::new();
            let img = base.image_torn(bs, &mut |_b, n| {
                let c = crash_src.next().unwrap();
                let x = pick1(c, n);
                picks.push(x as u8);
                x
            });
            imgs.push((img, format!("torn picks {:?}", &picks[..std::cmp::min(picks.len(), 24)]), true));
        }

        for (img, desc, torn) in imgs {
            if images_left == 0 {
                break;
            }
            out.stats.images += 1;
            let h = fnv(&img);
            if !seen_img.insert(h) {
                continue;
            }
            images_left -= 1;
            out.stats.distinct_images += 1;
            if torn {
                out.stats.torn_images += 1;
            }
            if has_meta && h != all_h && h != dur_h {
                out.stats.nontrivial_images += 1;
            }
            let where_ = format!("crash at event {p} (during op {:?} {}), {} un-synced requests, {}", opi, phase, k, desc);
            if cfg.check_safe {
                let rep = checker::check(&img, Mode::CrashSafe);
                if !rep.leaked.is_empty() {
                    out.stats.leaked_images += 1;
                }
                if !rep.ok(Mode::CrashSafe) {
                    let vol: Vec<String> = base
                        .volatile
                        .iter()
                        .map(|v| format!("{}@{}+{}{}", if v.data.is_none() { "zero" } else { "write" }, v.off, v.len, if v.completed { "" } else { "(in flight)" }))
                        .collect();
                    let rule = if !rep.corrupt.is_empty() { Rule::CheckCorrupt } else { Rule::CheckUnder };
                    out.violation = Some(
                        Violation::new(rule, format!("{where_}: crash image is not a safe qcow2 image: {} | un-synced: {}", rep.summary(Mode::CrashSafe), vol.join(" ")))
                            .tag(format!("phase:{phase}"))
                            .tag(if torn { "torn" } else { "whole" })
                            .tag("crash"),
                    );
                    return;
                }
            }
            if cfg.check_durable {
                if let Some(v) = durable_check(inp, &img, p, &where_, &mut out.stats) {
                    out.violation = Some(v);
                    return;
                }
            }
        }
    }
}

/// C05: open the crash image and compare every block with {synced value} U {later values}
fn durable_check(inp: &CrashInput, img: &[u8], p: u64, where_: &str, stats: &mut CrashStats) -> Option<Violation> {
    let world = inp.world;
    // latest sync point completed at or before p
    let (sync_ev, synced) = inp.sync_points.iter().rev().find(|(ev, _)| *ev <= p)?;
    stats.durable_checks += 1;
    let cs = inp.model.cs;
    let vsize = inp.model.vsize;
    // ops invoked after the sync and started before the crash
    let later: Vec<&Op> = inp.calls.iter().filter(|(s, _)| *s >= *sync_ev && *s <= p).map(|(_, o)| o).collect();
    let w2 = World::new();
    w2.add_file(&layer_name(0), img.to_vec());
    let n = world.0.borrow().files.len();
    for id in 1..n {
        w2.add_file(&layer_name(id), world.bytes(id));
    }
    let params = inp.params.clone();
    let dev = match open_chain(&w2, 0, &params, true) {
        Ok(Ok(d)) => d,
        Ok(Err(e)) => {
            return Some(Violation::new(Rule::ReopenOpen, format!("{where_}: image with synced data does not open after the crash: {e}")).tag("crash").tag("durable"))
        }
        Err(pn) => {
            return Some(
                Violation::new(Rule::Panic, format!("{where_}: opening the crash image panicked: {pn}"))
                    .tag("crash")
                    .tag("durable")
                    .tag(format!("panic:{}", panic_site(&pn))),
            )
        }
    };
    let mut s2 = Sched::new(None);
    let got = match sweep(&w2, &mut s2, &dev, vsize, params.bs(), cs, 3) {
        Ok(g) => g,
        Err(mut v) => {
            v.msg = format!("{where_}: reading the crash image failed: {}", v.msg);
            v.tags.push("crash".into());
            v.tags.push("durable".into());
            return Some(v);
        }
    };
    let readable = got.len() - got.len() % params.bs();
    let mut blk = [0u8; BLK];
    for b in 0..readable / BLK {
        let s = b * BLK;
        let g = &got[s..s + BLK];
        if g == &synced[s..s + BLK] {
            continue;
        }
        // some later op must explain the value
        let mut ok = false;
        let mut shares = false;
        for op in &later {
            match op {
                Op::Write { off, len, pat } => {
                    let (o, l) = (*off as usize, *len);
                    if o / cs <= s / cs && s / cs <= (o + l - 1) / cs {
                        shares = true;
                    }
                    if o <= s && s + BLK <= o + l {
                        crate::pat::fill_block(&mut blk, *pat, b as u64);
                        if g == blk {
                            ok = true;
                        }
                    }
                }
                Op::Discard { off, len } => {
                    let r = inp.model.discard_range(*off, *len);
                    if r.contains(&(s / cs)) {
                        shares = true;
                        if g.iter().all(|x| *x == 0) {
                            ok = true;
                        }
                    }
                }
                _ => {}
            }
            if ok {
                break;
            }
        }
        if shares {
            stats.later_op_shares_cluster += 1;
        }
        if !ok {
            let mut v = Violation::new(
                Rule::ReadData,
                format!(
                    "{where_}: guest block {b} (cluster {}) was synced as {} at event {sync_ev} but reads {} after the crash; no operation issued after the sync wrote that value",
                    s / cs,
                    crate::pat::describe(&synced[s..s + BLK]),
                    crate::pat::describe(g)
                ),
            )
            .tag("crash")
            .tag("durable");
            v.cluster = Some(s / cs);
            return Some(v);
        }
    }
    None
}

/// A concurrent history (batches of tasks under a generated schedule) plus crash choices
#[derive(Clone, Debug, PartialEq, Eq, Serialize, Deserialize)]
pub struct ConcCrashCase {
    pub conc: crate::conc::ConcCase,
    pub crash: Vec<u16>,
}

/// Crash analysis of a concurrent history: the request stream of batches of concurrently running
/// calls is cut at crash points exactly like a sequential one. With `sync` the device is flushed
/// and synced at every quiescent point (sequentially), which gives C05 its sync points.
pub fn run_crash_conc(case: &ConcCrashCase, cfg: &CrashCfg, sync: bool) -> CrashRun {
    use crate::conc::{run_conc, ConcCfg};
    let mut out = CrashRun {
        growth: Growth::default(),
        violation: None,
        foreign: None,
        inconclusive: None,
        stats: CrashStats::default(),
    };
    let ccfg = ConcCfg {
        linearizability: true,
        final_reopen: false,
        keep_data: true,
        sync_after_batch: sync,
        ..ConcCfg::default()
    };
    let run = run_conc(&case.conc, &ccfg);
    if let Some(m) = run.inconclusive {
        out.inconclusive = Some(m);
        return out;
    }
    out.stats.ops_done = run.stats.calls;
    // a history that broke a rule of C06/C07 is still a history (see run_crash)
    out.foreign = run.violation.clone();
    let model = match &run.model {
        Some(m) => m,
        None => return out,
    };
    let world = run.world.clone();
    out.stats.requests = world.0.borrow().log.len();
    let batches = run.trace.batch_events.clone();
    let kinds: Vec<&'static str> = case
        .conc
        .batches
        .iter()
        .map(|b| {
            let has = |f: &dyn Fn(&Op) -> bool| b.iter().flatten().any(|o| f(o));
            if has(&|o| matches!(o, Op::Flush | Op::Shrink)) {
                "flush"
            } else if has(&|o| matches!(o, Op::Discard { .. })) {
                "discard"
            } else if has(&|o| matches!(o, Op::Write { .. })) {
                "write"
            } else {
                "-"
            }
        })
        .collect();
    let inp = CrashInput {
        world: &world,
        model,
        bs: case.conc.params.bs(),
        params: case.conc.params.clone(),
        sync_points: &run.trace.sync_points,
        calls: run.trace.calls.clone(),
        phase: Box::new(move |p| match batches.iter().find(|(s, e, _)| *s <= p && p <= *e) {
            Some((_, _, bi)) => (Some(*bi), kinds.get(*bi).copied().unwrap_or("-")),
            None => (None, "flush"), // between batches: the sequential flush + fsync
        }),
    };
    analyse(&inp, &case.crash, cfg, &mut out);
    out
}

/// Decode a crash case: a sequential case whose history contains sync points
pub fn decode_crash(raw: &RawCase, p: &crate::gen::Profile, force_syncs: bool) -> CrashCase {
    let mut d = crate::gen::decode_seq(raw, p).case;
    // no reopen inside crash histories (a reopen changes the device under test mid-history);
    // flush + fsync pairs instead
    let mut ops = Vec::new();
    for (i, op) in d.ops.drain(..).enumerate() {
        match op {
            Op::Reopen { .. } => {
                ops.push(Op::Flush);
                ops.push(Op::Fsync);
            }
            Op::Flush if force_syncs && i % 2 == 0 => {
                ops.push(Op::Flush);
                ops.push(Op::Fsync);
            }
            o => ops.push(o),
        }
    }
    if force_syncs && !ops.iter().any(|o| matches!(o, Op::Fsync)) && ops.len() >= 2 {
        let pos = std::cmp::max(1, ops.len() / 3);
        ops.insert(pos, Op::Flush);
        ops.insert(pos + 1, Op::Fsync);
    }
    d.ops = ops;
    CrashCase {
        seq: d,
        crash: raw.extra.clone(),
    }
}

/// Human-readable dump of the request log of a crash case (triage helper)
pub fn explain(case: &CrashCase) -> String {
    let scfg = SeqCfg {
        sweep: false,
        check_on_flush: false,
        reopen_on_flush: false,
        mapping_check: false,
        align: false,
        final_flush: false,
        release_check: false,
        keep_data: true,
        record_syncs: true,
        ..SeqCfg::default()
    };
    let run = run_seq(&case.seq, &scfg);
    let mut s = String::new();
    let w = run.world.0.borrow();
    let cs = run.model.cs as u64;
    s += &format!("cluster size {cs}, initial file len {}, violation {:?}\n", w.files[0].initial.len(), run.violation.as_ref().map(|v| &v.msg));
    for (i, (a, b)) in run.op_events.iter().enumerate() {
        s += &format!("op {i} {:?}: events {a}..{b}\n", case.seq.ops.get(i));
        for r in w.log.iter().filter(|r| r.submit_ev > *a && r.submit_ev <= *b) {
            s += &format!(
                "    seq {:3} f{} {:?} off {:6} (cluster {:3}+{:4}) len {:6} submit {} complete {:?} ok {}\n",
                r.seq,
                r.file,
                r.kind,
                r.off,
                r.off / cs,
                r.off % cs,
                r.len,
                r.submit_ev,
                r.complete_ev,
                r.ok
            );
        }
    }
    s
}

/// Debug helper: L2 mapping (independent decoder) of the crash image at event `p` with every
/// un-synced request persisted
pub fn crashdump(case: &CrashCase, p: u64) -> String {
    let scfg = SeqCfg {
        sweep: false,
        check_on_flush: false,
        reopen_on_flush: false,
        mapping_check: false,
        align: false,
        final_flush: false,
        release_check: false,
        keep_data: true,
        record_syncs: true,
        ..SeqCfg::default()
    };
    let run = run_seq(&case.seq, &scfg);
    let base = run.world.crash_base(p);
    let img = base.image_subset(&|_| true);
    let rep = checker::check(&img, Mode::CrashSafe);
    let mut s = format!("image len {} volatile {} checker: {}\n", img.len(), base.volatile.len(), rep.summary(Mode::Strict));
    for (g, k) in rep.l2.iter() {
        s += &format!("  guest {g}: {:?} stored_refcount {:?}\n", k, match k {
            crate::spec::layout::L2Kind::Data { off, .. } | crate::spec::layout::L2Kind::Zero { off, .. } | crate::spec::layout::L2Kind::Compressed { off, .. } =>
                checker::stored_refcount(&img, rep.header.as_ref().unwrap(), off >> rep.header.as_ref().unwrap().cluster_bits),
            _ => None,
        });
    }
    s
}

/// Debug helper: request log of a concurrent crash case
pub fn explain_conc(case: &ConcCrashCase, sync: bool) -> String {
    use crate::conc::{run_conc, ConcCfg};
    let ccfg = ConcCfg { linearizability: true, final_reopen: false, keep_data: true, sync_after_batch: sync, ..ConcCfg::default() };
    let run = run_conc(&case.conc, &ccfg);
    let w = run.world.0.borrow();
    let cs = run.model.as_ref().map(|m| m.cs as u64).unwrap_or(512);
    let mut s = format!("cluster size {cs}, violation {:?}\n", run.violation.as_ref().map(|v| &v.msg));
    for (bi, b) in case.conc.batches.iter().enumerate() {
        s += &format!("batch {bi}: {:?} events {:?}\n", b, run.trace.batch_events.get(bi));
    }
    for r in w.log.iter() {
        s += &format!(
            "    seq {:3} f{} {:?} off {:6} (cluster {:3}+{:4}) len {:6} submit {} complete {:?} ok {}\n",
            r.seq, r.file, r.kind, r.off, r.off / cs, r.off % cs, r.len, r.submit_ev, r.complete_ev, r.ok
        );
    }
    s
}
